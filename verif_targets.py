"""M-targets: importable recording callables planted by the workloads.

Any attribute `verif_targets.<name>` resolves to a callable that appends
(name, args, kwargs) - deep-copied at receipt - to LOG and returns a fresh,
uniquely tagged Result, which makes identity (`is`) between consumers
meaningful.  Names starting with `id` return their first argument unchanged
(identity targets), names starting with `raise` raise RuntimeError.
`sig_<n>` targets have generated signatures (see make_sig).
"""
import copy
import itertools

LOG = []
_counter = itertools.count(1)
_cache = {}


class Result:
    """value produced by a recording target"""
    __slots__ = ('name', 'serial', 'args', 'kwargs')

    def __init__(self, name, serial, args=(), kwargs=None):
        self.name = name
        self.serial = serial
        self.args = args
        self.kwargs = kwargs or {}

    def __repr__(self):
        return f'<Result {self.name}#{self.serial}>'

    def __eq__(self, other):
        return isinstance(other, Result) and (self.name, self.serial) == (other.name, other.serial)

    def __hash__(self):
        return hash((self.name, self.serial))

    def __deepcopy__(self, memo):
        return self

    def __reduce__(self):
        return (Result, (self.name, self.serial))


def reset():
    del LOG[:]


def _safe_copy(x):
    try:
        return copy.deepcopy(x)
    except Exception:
        return x


def _make(name):
    if name.startswith('id'):
        def target(*args, **kwargs):
            LOG.append((name, args, kwargs))
            return args[0] if args else (next(iter(kwargs.values())) if kwargs else None)
    elif name.startswith('ordr'):
        def target(*args, **kwargs):
            # reports the positions its arguments arrived at
            LOG.append((name, _safe_copy(args), _safe_copy(kwargs)))
            return {'positional': list(args), 'named': dict(kwargs)}
    elif name.startswith('raise'):
        def target(*args, **kwargs):
            LOG.append((name, _safe_copy(args), _safe_copy(kwargs)))
            raise RuntimeError('target ' + name + ' raises on purpose')
    elif name.startswith('nested'):
        def target(*args, **kwargs):
            # a target that itself builds (and evaluates) another config while the outer evaluation is in progress
            import awesomeyaml
            inner = awesomeyaml.Config.build('q: !call:verif_targets.inner_' + name + ' {x: 1}\nr: !xref q\ns: [!xref q, !xref r]\n', raw_yaml=True)
            LOG.append((name, _safe_copy(args), _safe_copy(kwargs)))
            return Result(name, next(_counter), _safe_copy(args), {'inner_ok': inner['r'] is inner['q']})
    elif name.startswith('none'):
        def target(*args, **kwargs):
            LOG.append((name, _safe_copy(args), _safe_copy(kwargs)))
            return None
    elif name.startswith('empty'):
        def target(*args, **kwargs):
            LOG.append((name, _safe_copy(args), _safe_copy(kwargs)))
            return [] if name.endswith('l') else {}
    elif name.startswith('zero'):
        def target(*args, **kwargs):
            LOG.append((name, _safe_copy(args), _safe_copy(kwargs)))
            return 0
    elif name.startswith('plain'):
        def target(*args, **kwargs):
            LOG.append((name, _safe_copy(args), _safe_copy(kwargs)))
            return {'plain': name, 'n': len(args) + len(kwargs)}
    else:
        def target(*args, **kwargs):
            LOG.append((name, _safe_copy(args), _safe_copy(kwargs)))
            return Result(name, next(_counter), _safe_copy(args), _safe_copy(kwargs))
    target.__name__ = name
    target.__qualname__ = name
    target.__module__ = __name__
    return target


def make_sig(name, params):
    """a recording target with an explicit signature.  params: list of (pname, kind, has_default)
    kind in {'pos', 'kwonly', 'var', 'varkw'}"""
    parts, seen_star = [], False
    for pname, kind, has_default in params:
        if kind == 'var':
            parts.append('*' + pname)
            seen_star = True
        elif kind == 'varkw':
            parts.append('**' + pname)
        elif kind == 'kwonly':
            if not seen_star:
                parts.append('*')
                seen_star = True
            parts.append(pname + ('=' + repr('d_' + pname) if has_default else ''))
        else:
            parts.append(pname + ('=' + repr('d_' + pname) if has_default else ''))
    names = [p[0] for p in params]
    src = (f'def {name}({", ".join(parts)}):\n'
           f'    bound = {{{", ".join(repr(n) + ": " + n for n in names)}}}\n'
           f'    LOG.append(({name!r}, bound))\n'
           f'    return Result({name!r}, next(_counter), (), bound)\n')
    ns = {'LOG': LOG, 'Result': Result, '_counter': _counter}
    exec(src, ns)
    f = ns[name]
    f.__module__ = __name__
    _cache[name] = f
    return f


def __getattr__(name):
    if name.startswith('__'):
        raise AttributeError(name)
    f = _cache.get(name)
    if f is None:
        f = _cache[name] = _make(name)
    return f
