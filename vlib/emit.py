"""Abstract documents and their rendering as YAML text.

An abstract node is a JSON-able dict (so that cases can be written to replay
files verbatim):

  {'t': 'map', 'items': [[key, node], ...], <flags>}
  {'t': 'seq', 'items': [node, ...], <flags>}
  {'t': 'sc',  'v': value, 'style': 'plain'|'dq'|'sq', 'nf': '~'|'null'|'' , <flags>}
  {'t': 'sp',  'kind': ..., ...}                       special (dynamic/structural) nodes

flags (all optional): prio (1 | -1), del (True | False), new (True | False),
unsafe (True), md (dict of user metadata), mdsyn ('hex' | 'brace'),
vdel (True: value-less "!del").

`emit(doc, ...)` renders a document; `emit(doc, erase=True)` renders its
tag-erased twin; `plain(doc)` is the data the twin denotes.
"""
import json
import math
import pickle
import re

import yaml as pyyaml

FLAG_KEYS = ('prio', 'del', 'new', 'unsafe', 'md', 'vdel')


# ----------------------------------------------------------------- constructors
def M(items, **fl):
    d = {'t': 'map', 'items': [[k, v] for k, v in (items.items() if isinstance(items, dict) else items)]}
    d.update(fl)
    return d


def L(items, **fl):
    d = {'t': 'seq', 'items': list(items)}
    d.update(fl)
    return d


def S(v, **fl):
    d = {'t': 'sc', 'v': v}
    d.update(fl)
    return d


def SP(kind, **kw):
    d = {'t': 'sp', 'kind': kind}
    d.update(kw)
    return d


def from_plain(v):
    if isinstance(v, dict):
        return M([[k, from_plain(x)] for k, x in v.items()])
    if isinstance(v, list):
        return L([from_plain(x) for x in v])
    return S(v)


def plain(n):
    """the plain data a node denotes once all tags are erased"""
    t = n['t']
    if t == 'map':
        return {k: plain(c) for k, c in n['items']}
    if t == 'seq':
        return [plain(c) for c in n['items']]
    if t == 'sc':
        return None if n.get('vdel') else n['v']
    raise ValueError('special nodes have no plain value')


def walk(n, path=()):
    yield path, n
    if n['t'] == 'map':
        for k, c in n['items']:
            yield from walk(c, path + (k,))
    elif n['t'] == 'seq':
        for i, c in enumerate(n['items']):
            yield from walk(c, path + (i,))
    elif n['t'] == 'sp':
        a = n.get('args')
        if isinstance(a, dict) and 't' in a:
            yield from walk(a, path)


def has_flags(n):
    return any(n.get(k) is not None for k in FLAG_KEYS)


def strip_flags(n):
    n = dict(n)
    for k in FLAG_KEYS + ('mdsyn',):
        n.pop(k, None)
    if n['t'] == 'map':
        n['items'] = [[k, strip_flags(c)] for k, c in n['items']]
    elif n['t'] == 'seq':
        n['items'] = [strip_flags(c) for c in n['items']]
    return n


# ----------------------------------------------------------------- scalars
_PLAIN_OK = re.compile(r'^[A-Za-z][A-Za-z0-9_]*$')


def _loads_as(text, value, flow=True):
    try:
        got = pyyaml.safe_load('[' + text + ']' if flow else text)
    except Exception:
        return False
    if flow:
        if not isinstance(got, list) or len(got) != 1:
            return False
        got = got[0]
    if type(got) is not type(value):
        return False
    if isinstance(value, float) and math.isnan(value):
        return math.isnan(got)
    return got == value


def scalar_text(v, style=None, nf=None):
    """YAML text of a scalar, valid in flow context"""
    if v is None:
        return nf if nf is not None else 'null'
    if v is True:
        return 'true'
    if v is False:
        return 'false'
    if isinstance(v, int):
        return str(v)
    if isinstance(v, float):
        if math.isnan(v):
            return '.nan'
        if math.isinf(v):
            return '.inf' if v > 0 else '-.inf'
        r = repr(v)
        if _loads_as(r, v):
            return r
        r = '%.17e' % v
        m, e = r.split('e')
        r = m + 'e' + ('+' if int(e) >= 0 else '-') + str(abs(int(e)))
        if _loads_as(r, v):
            return r
        raise ValueError(f'float {v!r} has no YAML 1.1 spelling that round-trips')
    if isinstance(v, str):
        if style == 'plain' and _PLAIN_OK.match(v) and _loads_as(v, v):
            return v
        if style == 'sq' and v.isprintable() and v.isascii() and _loads_as("'" + v.replace("'", "''") + "'", v):
            return "'" + v.replace("'", "''") + "'"
        return json.dumps(v)
    raise ValueError(f'unsupported scalar {v!r}')


def key_text(k):
    if isinstance(k, str):
        if _PLAIN_OK.match(k) and _loads_as(k, k):
            return k
        if k.startswith('_') and re.match(r'^_[A-Za-z0-9_]*$', k) and _loads_as(k, k):
            return k
        return json.dumps(k)
    return scalar_text(k)


# ----------------------------------------------------------------- tags
_SPECIAL = {'prio': 'priority', 'del': 'delete', 'new': 'allow_new', 'unsafe': 'safe'}


def _pylit(v):
    """python literal with a trailing comma in every dict so that two closing braces never touch"""
    if isinstance(v, dict):
        return '{' + ''.join(f'{_pylit(k)}: {_pylit(x)}, ' for k, x in v.items()) + '}'
    if isinstance(v, list):
        return '[' + ', '.join(_pylit(x) for x in v) + ']'
    if isinstance(v, tuple):
        return '(' + ''.join(_pylit(x) + ', ' for x in v) + ')'
    return repr(v)


def md_dict(n):
    d = {}
    if n.get('prio') is not None:
        d['priority'] = n['prio']
    if n.get('vdel'):
        d['delete'] = True
    elif n.get('del') is not None:
        d['delete'] = n['del']
    if n.get('new') is not None:
        d['allow_new'] = n['new']
    if n.get('unsafe'):
        d['safe'] = False
    for k, v in (n.get('md') or {}).items():
        d[k] = _detuple(v)
    return d


def _detuple(v):
    # replay files are JSON: tuples inside metadata are stored as {'__tuple__': [...]}
    if isinstance(v, dict) and set(v) == {'__tuple__'}:
        return tuple(_detuple(x) for x in v['__tuple__'])
    if isinstance(v, dict):
        return {k: _detuple(x) for k, x in v.items()}
    if isinstance(v, list):
        return [_detuple(x) for x in v]
    return v


def md_suffix(n, d=None):
    d = md_dict(n) if d is None else d
    if n.get('mdsyn') == 'brace':
        return '{' + _pylit(d) + '}'
    return ':' + pickle.dumps(d).hex()


def tag_of(n):
    """tag text for an ordinary (map/seq/scalar) node, '' if none"""
    d = md_dict(n)
    if not d:
        return ''
    if len(d) == 1 and not n.get('md') and not n.get('force_md'):
        (k, v), = d.items()
        if k == 'priority' and v in (1, -1):
            return '!force' if v == 1 else '!weak'
        if k == 'delete':
            return '!del' if v else '!merge'
        if k == 'allow_new':
            return '!new' if v else '!notnew'
        if k == 'safe':
            return '!unsafe'
    return '!metadata' + md_suffix(n, d)


def special_text(n, emit_child):
    """(tag, body-text) of a special node; emit_child renders argument containers"""
    k = n['kind']
    sfx = md_suffix(n) if md_dict(n) else ''
    if k in ('required', 'clear', 'null'):
        return '!' + k + sfx, ''
    if k in ('xref', 'ref'):
        return '!' + k + sfx, json.dumps(n['path'])
    if k == 'prev':
        return '!prev', (n['path'] if n.get('plain') else json.dumps(n['path']))
    if k in ('append', 'extend'):
        return '!' + k + (sfx if k == 'extend' else ''), emit_child(n['args'])
    if k in ('call', 'bind'):
        if n.get('args') is None:
            if sfx:
                return f'!{k}:{n["func"]}' + sfx, '{}'
            return '!' + k, n['func']
        return f'!{k}:{n["func"]}' + sfx, emit_child(n['args'])
    if k == 'eval':
        return '!eval' + sfx, json.dumps(n['code'])
    if k == 'fstr':
        if n.get('implicit'):
            return '', n['text']          # plain scalar f'...'
        return '!fstr', json.dumps(n['text'])
    if k == 'import':
        return '!import', n['name']
    if k == 'include':
        f = n['files']
        return '!include', (json.dumps(f) if isinstance(f, str) else '[' + ', '.join(json.dumps(x) for x in f) + ']')
    if k == 'rec':
        return '!rec', json.dumps(n['file'])
    if k == 'path':
        ref = n.get('ref')
        tag = '!path' + ((':' + ref) if ref else '') + ((sfx if ref else (':' + sfx)) if sfx else '')
        return tag, '[' + ', '.join(json.dumps(x) for x in n['parts']) + ']'
    if k == 'raw':
        return '', n['text']
    raise ValueError(k)


# ----------------------------------------------------------------- rendering
def flow(n, erase=False, in_seq=False):
    t = n['t']
    tag = '' if erase else (tag_of(n) if t != 'sp' else '')
    if t == 'sp':
        if erase:
            raise ValueError('special nodes cannot be erased')
        tag, body = special_text(n, lambda c: flow(c, erase))
        return (tag + ' ' + body).strip() if body else tag + ' '
    if t == 'map':
        body = '{' + ', '.join(f'{key_text(k)}: {flow(c, erase)}' for k, c in n['items']) + '}'
    elif t == 'seq':
        body = '[' + ', '.join(flow(c, erase, True) for c in n['items']) + ']'
    else:
        if n.get('vdel'):
            return 'null' if erase else tag + ' '
        body = scalar_text(n['v'], n.get('style'), n.get('nf'))
        if body == '' and in_seq:
            body = '~'
        if body == '':
            if erase or not tag:
                return ''
            return tag + ' '
    return (tag + ' ' + body) if tag else body


_BLOCK_OK = re.compile(r'^[^\s#][^\n]*(\n[^\s][^\n]*)*\n?$')


def _block_scalar(n, ind, erase):
    """literal / folded block scalar for a string node, or None if the text does not lend itself to it"""
    v = n.get('v')
    st = n.get('style')
    if n['t'] != 'sc' or not isinstance(v, str) or st not in ('lit', 'fold') or n.get('vdel'):
        return None
    if not _BLOCK_OK.match(v) or not v.isprintable() and '\n' not in v or any(l != l.rstrip() for l in v.split('\n')) or not v.replace('\n', '').isprintable():
        return None
    if st == 'fold' and '\n' in v.rstrip('\n'):
        return None
    ind_char = '|' if st == 'lit' else '>'
    chomp = '' if v.endswith('\n') else '-'
    tag = '' if erase else tag_of(n)
    body = v[:-1] if v.endswith('\n') else v
    pad = ' ' * ind
    return ((tag + ' ') if tag else '') + ind_char + chomp, [pad + l for l in body.split('\n')]


def _block_lines(n, ind, erase, rnd_flow):
    """returns (head, lines): head goes on the introducing line, lines follow"""
    t = n['t']
    bs = _block_scalar(n, ind, erase)
    if bs is not None:
        return bs
    if t == 'sp' or t == 'sc' or not n['items'] or rnd_flow(n):
        return flow(n, erase), []
    tag = '' if erase else tag_of(n)
    lines = []
    pad = ' ' * ind
    if t == 'map':
        for k, c in n['items']:
            h, ls = _block_lines(c, ind + 2, erase, rnd_flow)
            lines.append(f'{pad}{key_text(k)}:' + ((' ' + h) if h != '' else ''))
            lines.extend(ls)
    else:
        for c in n['items']:
            h, ls = _block_lines(c, ind + 2, erase, rnd_flow)
            lines.append(f'{pad}-' + ((' ' + h) if h != '' else ''))
            lines.extend(ls)
    return tag, lines


def emit(doc, style='flow', erase=False, flow_pred=None):
    """YAML text of one document.  style: 'flow' or 'block' (flow_pred(node) may
    force single containers to flow in block style)."""
    if style == 'flow':
        return flow(doc, erase) + '\n'
    head, lines = _block_lines(doc, 0, erase, flow_pred or (lambda n: False))
    if not lines:
        return head + '\n'
    if head:
        return '--- ' + head + '\n' + '\n'.join(lines) + '\n'
    return '\n'.join(lines) + '\n'


def emit_stream(docs, style='flow', erase=False, flow_pred=None):
    out = []
    for d in docs:
        txt = emit(d, style, erase, flow_pred)
        if txt.startswith('--- '):
            out.append(txt)
        else:
            out.append('---\n' + txt)
    return ''.join(out)
