"""C14 - a build succeeds iff no !required placeholder survives merging.

History + model: placeholders at random positions, later stages overriding,
deleting, clearing or moving random subsets with priorities deciding who wins.
The surviving set comes from model.py; the error text must list exactly those
paths, and the recording targets planted in every tree prove that nothing was
evaluated before the failure.
"""
import re
import copy
import random

from .. import gen, emit, lib, util, model, calib, monitors
from ..emit import M, L, S, SP
from . import c05, c16

ID = 'C14'
LEVEL = 'exploration'
TECHNIQUE = 'runtime monitoring: surviving-placeholder set from the merge model vs. the paths listed in the raised error; recording targets + PY_START counters prove no evaluation preceded the failure'
LEVEL_TEXT = ('Held on the generated histories only: trees with !required at the top level, in nested mappings, in lists, in !call/!bind arguments, under tagged containers and '
              'underscore keys, with metadata; 0-3 later stages override (scalar, container, !del, value-less !del, !clear on the parent, !prev moving the placeholder) random '
              'subsets with priorities. Build must fail iff the model\'s surviving set is non-empty, list exactly that set, and run no recording target first.')
LEVEL_NOTE = 'Trusted: model.py merge semantics (calibrated on the required/dict/list fixtures) and the Node-path parser of the error text.'
RULE = 'seeded tree + overriding stages; non-trivial = at least one placeholder and one later stage touching a placeholder path; distinct = hash of texts'
ASSUMPTIONS = ['paths in the error text are NodePath strings, one per line']
TIERS = {'quick': {'cases': 3000, 'budget': 60}, 'thorough': {'cases': 100000, 'budget': 900}}
POOL = ['a', 'b', 'c', 'd', '_u', 'k1']
MIN_COUNTERS = {'eval_monitor_armed': 1}
_mon = {}
_counts = {'eval_monitor_armed': 0, 'evaluate_node_calls_seen': 0}


def init(tier):
    from awesomeyaml.eval_context import EvalContext
    m = monitors.EvalMonitor({'evaluate_node': EvalContext.evaluate_node.__wrapped__ if hasattr(EvalContext.evaluate_node, '__wrapped__') else _unwrap(EvalContext.evaluate_node)})
    m.start()
    _mon['m'] = m
    return calib.calibrate(['required', 'dict', 'list'], model.config, min_used=30)


def _unwrap(f):
    # errors.api_entry wraps without functools.wraps: the original is in the closure
    while getattr(f, '__closure__', None):
        inner = [c.cell_contents for c in f.__closure__ if callable(c.cell_contents)]
        if not inner:
            break
        f = inner[0]
    return f


def finish():
    return dict(_counts)


def to_model(doc):
    """!call/!bind nodes merge like explicitly deleting mappings of their arguments; recorder scalars are plain values"""
    d = copy.deepcopy(doc)

    def rec(n):
        if n['t'] == 'map':
            # (a string which restates the current target name of a function node has no effect: the model never sees it)
            n['items'] = [[k, rec(c)] for k, c in n['items'] if not c.get('same_target_name')]
        elif n['t'] == 'seq':
            n['items'] = [rec(c) for c in n['items']]
        elif n['t'] == 'sp' and n['kind'] in ('call', 'bind'):
            a = n.get('args') or M([])
            a = rec(copy.deepcopy(a))
            if a['t'] == 'seq':
                a = M([[i, c] for i, c in enumerate(a['items'])])
            a['del'] = True
            a['fnode'] = True
            for f in ('prio', 'md', 'unsafe', 'new'):
                if n.get(f) is not None:
                    a[f] = n[f]
            return a
        return n
    return rec(d)


def gen_cmdline(rng):
    """placeholders inside lists nested in lists, later stages given as command-line overrides a[i][j]=value"""
    rows, cols = rng.choice([2, 3]), rng.choice([2, 3])
    cells = [(i, j) for i in range(rows) for j in range(cols)]
    req = set(rng.sample(cells, rng.randrange(1, min(4, len(cells)) + 1)))
    grid = L([L([SP('required') if (i, j) in req else S(10 * i + j) for j in range(cols)]) for i in range(rows)])
    where = rng.choice(['top', 'nested', 'bindarg'])
    if where == 'top':
        doc, prefix, ptxt = M([['grid', grid]]), ('grid',), 'grid'
    elif where == 'nested':
        doc, prefix, ptxt = M([['deep', M([['l', grid]])]]), ('deep', 'l'), 'deep.l'
    else:
        doc, prefix, ptxt = M([['fn', SP('bind', func='verif_targets.withreq', args=M([['g', grid]]))]]), ('fn', 'g'), 'fn.g'
    doc['items'].append(['rec0', SP('call', func='verif_targets.canary', args=M([['x', S(1)]]))])
    over = [c for c in sorted(req) if rng.random() < 0.6]
    rng.shuffle(over)
    args = [f'{ptxt}[{i}][{j}]={100 + 10 * i + j}' for i, j in over]
    surv = sorted(_join(prefix + c) for c in req if c not in over)
    return {'cmdline': True, 'texts': [emit.emit(doc, 'block')], 'args': args, 'surviving': surv, 'filled': [[list(prefix + c), 100 + 10 * c[0] + c[1]] for c in over], 'nt': True}


def gen_case(rng, tier):
    if rng.random() < 0.08:
        return gen_cmdline(rng)
    mk = gen.Marker()
    base = gen.rand_doc(rng, rng.choice([2, 3, 4]), kinds=('s',), pool_s=POOL, hostile=False, marker=mk, p_leaf=0.4)
    # plant placeholders
    leaves = [(p, n) for p, n in emit.walk(base) if n['t'] == 'sc' and p]
    req_paths = []
    for p, n in leaves:
        if rng.random() < rng.choice([0.1, 0.25, 0.5]):
            n.clear()
            n.update(SP('required'))
            if rng.random() < 0.2:
                n['md'] = {'why': 'needed'}
                n['mdsyn'] = rng.choice(['hex', 'brace'])
            req_paths.append(p)
    # placeholders among call/bind arguments; every tree also holds a recorder that must not run before the check
    base['items'].append(['rec0', SP('call', func='verif_targets.canary', args=M([['x', S(1)]]))])
    fn_name = None
    if rng.random() < 0.5:
        r = rng.random()
        if r < 0.35:
            args, rp = M([['x', SP('required')], ['y', S(mk.next(rng))]]), [('fn', 'x')]
        elif r < 0.55:
            args, rp = L([S(mk.next(rng)), SP('required')]), [('fn', 1)]
        elif r < 0.8:
            # nested inside a list / mapping which is itself an argument
            args, rp = M([['layers', L([S(64), SP('required')])], ['opt', M([['lr', SP('required')], ['m', S(1)]])]]), [('fn', 'layers', 1), ('fn', 'opt', 'lr')]
        else:
            args, rp = M([['x', S(1)], ['inner', SP('bind', func='verif_targets.inner', args=M([['deep', L([SP('required')])]]))]]), [('fn', 'inner', 'deep', 0)]
        base['items'].append(['fn', SP(rng.choice(['call', 'bind']), func='verif_targets.withreq', args=args)])
        req_paths.extend(rp)
        fn_name = 'verif_targets.withreq'
    if rng.random() < 0.3:
        base = gen.place_flags(rng, base, p=0.15, vocab=('prio', 'del', 'md'), on_seq_elems=False)
    rl_n, rl_req = 0, []
    if rng.random() < 0.2:
        rl_n = rng.choice([3, 4, 5])
        rl_req = sorted(rng.sample(range(rl_n), rng.choice([2, 2, 3])))
        base['items'].append(['rl', L([SP('required') if j in rl_req else S(mk.next(rng)) for j in range(rl_n)])])
    docs = [base]
    raw_texts = {}
    if rng.random() < 0.25:
        # one placeholder object reachable under several paths (YAML anchor + aliases): every path counts
        if rng.random() < 0.5:
            adoc = M([['al_a', SP('required')], ['al_b', SP('required')], ['al_c', M([['x', SP('required')], ['y', S(1)]])]])
            raw_texts[1] = 'al_a: &anc !required\nal_b: *anc\nal_c: {x: *anc, y: 1}\n'
            req_paths += [('al_a',), ('al_b',), ('al_c', 'x')]
        else:
            adoc = M([['al_d', M([['lr', SP('required')], ['wd', S(1)]])], ['al_s1', M([['opt', M([['lr', SP('required')], ['wd', S(1)]])]])],
                      ['al_s2', L([M([['lr', SP('required')], ['wd', S(1)]]), S(2)])]])
            raw_texts[1] = 'al_d: &opt {lr: !required , wd: 1}\nal_s1: {opt: *opt}\nal_s2: [*opt, 2]\n'
            req_paths += [('al_d', 'lr'), ('al_s1', 'opt', 'lr'), ('al_s2', 0, 'lr')]
        docs.append(adoc)
    touched = False
    for _ in range(rng.choice([0, 1, 1, 2, 3])):
        d = M([])
        for p in req_paths:
            r = rng.random()
            if r < 0.45:
                continue
            touched = True
            if r < 0.7:
                node = gen.scalar_node(rng, mk.next(rng))
            elif r < 0.78:
                node = M([['sub', S(mk.next(rng))]])
            elif r < 0.86:
                node = S(None, vdel=True)
            elif r < 0.93:
                node = SP('required')
            else:
                node = S(mk.next(rng), prio=-1)
            if rng.random() < 0.15 and node['t'] != 'sp' and not node.get('vdel'):
                node['prio'] = rng.choice([1, -1])
            c16.put(d, _neg(rng, base, p), node)
        if rng.random() < 0.2 and req_paths:
            # act on a parent of a placeholder
            p = rng.choice(req_paths)
            if len(p) > 1:
                par = p[:rng.randrange(1, len(p))]
                # (a string merged onto a function node renames its target and an emptied function node is kept by type promotion: that table belongs to C13, not to this model)
                c16.put(d, par, rng.choice([SP('clear')] + ([M([], **{'del': True}), S(mk.next(rng))] if par[0] != 'fn' else [])))
                touched = True
        if rng.random() < 0.25 and fn_name and not any(k == 'fn' for k, _ in d['items']):
            # the current target of the function node, restated as a plain string: documented to change nothing - its placeholders stay
            same = S(fn_name, style=rng.choice(['plain', 'dq']))
            same['same_target_name'] = True
            d['items'].append(['fn', same])
            touched = True
        if rng.random() < 0.15 and req_paths:
            src = gen.path_str(rng.choice(req_paths))
            if src:
                c16.put(d, ('moved',), SP('prev', path=src))
                touched = True
        if d['items']:
            docs.append(d)
    if rl_n:
        # several placeholders of one list removed by ONE later stage, the positions written in any order (some counted from the end)
        gone = rng.sample(rl_req, rng.randrange(2, len(rl_req) + 1)) if len(rl_req) >= 2 else list(rl_req)
        rng.shuffle(gone)
        docs.append(M([['rl', M([[(j - rl_n if rng.random() < 0.3 else j), S(None, vdel=True)] for j in gone])]]))
        touched = True
    style = rng.choice(['flow', 'block'])
    return {'docs': docs, 'texts': [raw_texts.get(i) or emit.emit(x, style) for i, x in enumerate(docs)], 'nt': bool(req_paths) and touched}


def _neg(rng, base, p):
    """the same position spelled with negative list indices (a mapping addressing a list counts from the end as Python does)"""
    if not any(isinstance(c, int) for c in p) or rng.random() > 0.35:
        return p
    out, cur = [], base
    for c in p:
        nxt = None
        if cur is not None and cur.get('t') == 'map':
            nxt = dict((k, v) for k, v in cur['items']).get(c)
        elif cur is not None and cur.get('t') == 'seq' and isinstance(c, int) and 0 <= c < len(cur['items']):
            nxt = cur['items'][c]
            if rng.random() < 0.7:
                c = c - len(cur['items'])
        elif cur is not None and cur.get('t') == 'sp' and isinstance(cur.get('args'), dict):
            a = cur['args']
            if a['t'] == 'map':
                nxt = dict((k, v) for k, v in a['items']).get(c)
            elif isinstance(c, int) and 0 <= c < len(a['items']):
                nxt = a['items'][c]
        out.append(c)
        cur = nxt
    return tuple(out)


_LINE = re.compile(r"^\s*'(.*)'\s*$")


def _join(path):
    """the library's own path spelling (NodePath.join_path): [i] for ints, dotted names otherwise (also for names that are not identifier-like)"""
    out = ''
    for c in path:
        out += f'[{c}]' if isinstance(c, int) and not isinstance(c, bool) else ('.' if out else '') + str(c)
    return out


def listed_paths(e):
    for x in util.exc_chain(e):
        s = str(x)
        if 'required nodes have not been set' in s:
            tail = s.split('required nodes have not been set:', 1)[1]
            out = []
            for line in tail.split('\n'):
                m = _LINE.match(line)
                if m:
                    out.append(m.group(1))
            return out
    return None


def run_cmdline(case):
    import verif_targets
    from awesomeyaml.config import Config
    verif_targets.reset()
    text = case['texts'][0] + '# pad\n'
    got = lib.outcome(lambda: Config.build_from_cmdline(text, *case['args']))
    vio = []
    what = f'text={case["texts"][0]!r} args={case["args"]!r}'
    surv = case['surviving']
    if surv:
        lp = listed_paths(got[1]) if got[0] == 'err' else None
        if got[0] == 'ok':
            vio.append({'mech': 'builds-with-surviving-placeholder', 'what': f'placeholders survive at {surv} but the build succeeded; {what}'})
        elif lp is None:
            vio.append({'mech': 'wrong-failure', 'what': f'placeholders survive at {surv}; build fails differently: {lib.describe(got)}; {what}'})
        elif sorted(lp) != surv:
            vio.append({'mech': 'wrong-path-list', 'what': f'surviving placeholders {surv} but the error lists {sorted(lp)}; {what}'})
        if verif_targets.LOG:
            vio.append({'mech': 'evaluated-before-check', 'what': f'targets ran although placeholders survive at {surv}; {what}'})
    else:
        if got[0] == 'err':
            vio.append({'mech': 'fails-without-surviving-placeholder', 'what': f'every placeholder was overridden on the command line but the build {lib.describe(got)}; {what}'})
        else:
            for path, val in case['filled']:
                cur = got[1]
                try:
                    for c in path:
                        cur = cur.keywords[c] if hasattr(cur, 'keywords') and not isinstance(cur, (dict, list)) else cur[c]
                except Exception as e:
                    cur = e
                if cur != val:
                    vio.append({'mech': 'override-landed-elsewhere', 'what': f'{_join(path)} was given {val} on the command line but holds {cur!r}; {what}'})
                    break
    res = {'status': 'violation' if vio else 'ok', 'nontrivial': True, 'feats': ['cmdline_overrides', 'surviving=%d' % min(len(surv), 4)], 'sig': util.sig([case['texts'], case['args']])}
    if vio:
        res['violations'] = vio
    return res


def run(case):
    if case.get('cmdline'):
        _counts['eval_monitor_armed'] += 1
        return run_cmdline(case)
    import verif_targets
    from awesomeyaml.config import Config
    docs, texts = case['docs'], case['texts']
    try:
        mdocs = [to_model(d) for d in docs]
        tree = model.build(copy.deepcopy(mdocs), strict_domain=True)
        exp = ('ok', sorted(model.surviving_required(tree), key=repr))
    except model.OutOfDomain:
        return {'status': 'skip', 'feats': ['out_of_domain']}
    except model.ModelError as e:
        exp = ('err', e.kind)
    feats = []
    verif_targets.reset()
    mon = _mon['m']
    mon.reset()
    _counts['eval_monitor_armed'] += 1
    mo = lib.outcome(lambda: lib.merged(texts))
    vio = []
    if exp[0] == 'err':
        feats.append('merge_expected_to_fail')
        if mo[0] == 'ok' or lib.err_kind(mo[1]) != exp[1]:
            vio.append({'mech': 'merge-outcome-differs', 'what': f'model expects {exp[1]} while merging; library: {lib.describe(mo) if mo[0] == "err" else "merged fine"}; texts={texts!r}'})
    elif mo[0] == 'err':
        vio.append({'mech': 'merge-outcome-differs', 'what': f'model merges fine (surviving {exp[1]}) but library {lib.describe(mo)}; texts={texts!r}'})
    else:
        surv = exp[1]
        feats.append('surviving=%d' % min(len(surv), 4))
        steps_before = mon.counts['evaluate_node']
        got = lib.outcome(lambda: Config(mo[1]))
        _counts['evaluate_node_calls_seen'] += mon.counts['evaluate_node']
        if surv:
            want = sorted(_join(p) for p in surv)
            if got[0] == 'ok':
                vio.append({'mech': 'builds-with-surviving-placeholder', 'what': f'placeholders survive at {want} but the build succeeded: {util.short(c05._plain(got[1]), 200)}; texts={texts!r}'})
            else:
                lp = listed_paths(got[1])
                if lp is None:
                    vio.append({'mech': 'wrong-failure', 'what': f'placeholders survive at {want}; build fails differently: {lib.describe(got)}; texts={texts!r}'})
                elif sorted(lp) != want:
                    vio.append({'mech': 'wrong-path-list', 'what': f'surviving placeholders {want} but the error lists {sorted(lp)}; texts={texts!r}'})
                if verif_targets.LOG or mon.counts['evaluate_node'] != steps_before:
                    vio.append({'mech': 'evaluated-before-check', 'what': f'{len(verif_targets.LOG)} target call(s) / {mon.counts["evaluate_node"] - steps_before} evaluate_node step(s) happened although placeholders survive at {want}; texts={texts!r}'})
        else:
            if got[0] == 'err' and listed_paths(got[1]) is not None:
                vio.append({'mech': 'fails-without-surviving-placeholder', 'what': f'no placeholder survives merging but the build reports {listed_paths(got[1])}; texts={texts!r}'})
            elif got[0] == 'ok':
                feats.append('built_ok')
                if not any(c[0] == 'canary' for c in verif_targets.LOG) and 'rec0' in c05._plain(got[1]):
                    vio.append({'mech': 'monitor-blind', 'what': 'the canary recorder did not log although the config was evaluated'})
    if not vio and len(docs) > 1:
        vio += incremental(case, mdocs, feats)
    res = {'status': 'violation' if vio else 'ok', 'nontrivial': case['nt'], 'feats': feats, 'sig': util.sig(texts)}
    if vio:
        res['violations'] = vio
    return res


def _stage(text):
    from awesomeyaml.builder import Builder
    b = Builder()
    b.add_source(text, raw_yaml=True)
    b.preprocess()
    return b.stages[0]


def incremental(case, mdocs, feats):
    """the same history applied to ONE long-lived tree: build after the first stage, merge the next stage into that very tree (or into a
    deep copy of the source kept by the Config just built), build again ...  Every build is judged on the tree as it is at that moment."""
    import verif_targets
    from awesomeyaml.config import Config
    from awesomeyaml.builder import Builder
    texts = case['texts']
    rng = random.Random(util.sig(texts))
    mon = _mon['m']
    vio = []
    b = Builder()
    b.add_source(texts[0], raw_yaml=True)
    t0 = lib.outcome(b.build)
    if t0[0] == 'err' or not t0[1]:
        return vio
    tree = t0[1]
    for i in range(len(texts)):
        if i:
            st = lib.outcome(lambda: _stage(texts[i]))
            if st[0] == 'err' or not isinstance(st[1], dict):
                return vio
            m = lib.outcome(lambda: tree.ayns.merge(st[1]))
            if m[0] == 'err':
                return vio          # (merge failures are judged by the single-shot phase; the tree is unusable afterwards)
            tree = m[1]
        try:
            surv = sorted(_join(p) for p in model.surviving_required(model.build(copy.deepcopy(mdocs[:i + 1]), strict_domain=True)))
        except (model.OutOfDomain, model.ModelError):
            return vio
        if not tree:
            return vio
        verif_targets.reset()
        before = mon.counts['evaluate_node']
        got = lib.outcome(lambda: Config(tree))
        feats.append('incremental_build')
        where = f'after merging stage {i} into the long-lived tree (stages so far: {texts[:i + 1]!r})'
        if surv:
            lp = listed_paths(got[1]) if got[0] == 'err' else None
            if got[0] == 'ok':
                vio.append({'mech': 'builds-with-surviving-placeholder', 'what': f'{where}: placeholders survive at {surv} but the build succeeded'})
            elif lp is None:
                vio.append({'mech': 'wrong-failure', 'what': f'{where}: placeholders survive at {surv}; build fails differently: {lib.describe(got)}'})
            elif sorted(lp) != surv:
                vio.append({'mech': 'wrong-path-list', 'what': f'{where}: surviving placeholders {surv} but the error lists {sorted(lp)}'})
            if verif_targets.LOG or mon.counts['evaluate_node'] != before:
                vio.append({'mech': 'evaluated-before-check', 'what': f'{where}: evaluation started although placeholders survive at {surv}'})
        else:
            if got[0] == 'err' and listed_paths(got[1]) is not None:
                vio.append({'mech': 'fails-without-surviving-placeholder', 'what': f'{where}: no placeholder survives but the build reports {listed_paths(got[1])}'})
            elif got[0] == 'ok' and rng.random() < 0.5:
                # carry on from a copy of the source tree the Config object keeps
                feats.append('incremental_from_config_source_copy')
                tree = copy.deepcopy(got[1].ayns.source)
        if vio:
            break
    return vio
