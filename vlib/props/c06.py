"""C06 - streams are flattened in order: sources, multi-doc files and !include agree.

Metamorphic + fault enumeration on real temporary directory trees (created
outside /repo and /verif and removed after each case).  One document sequence is
delivered as n sources (baseline), one multi-document file, a top-level
'!include [f1..fn]', n top-level includes, random recursive mixtures, and as
'key: !include [..]'.  Decoy files of the same names sit in the working
directory.  For n <= 4 every subset of missing files is enumerated.  !path nodes
with file-relative reference points are checked against the physical location of
the file they were written in.  An audit hook records which files were opened.
"""
import os
import re
import sys
import copy
import shutil
import random
import tempfile
import itertools

from .. import gen, emit, lib, util
from ..emit import M, L, S, SP
from . import c05

ID = 'C06'
LEVEL = 'fault_enumeration'
TECHNIQUE = 'runtime monitoring: metamorphic delivery variants on real directory trees + exhaustive enumeration of missing-file subsets (n<=4) + audit hook on open() for the look-up order'
LEVEL_TEXT = ('Held on the generated layouts only: 1-4 documents over the merge vocabulary (including list-valued keys overridden across the include boundary) in 1-3 directory levels; '
              'all delivery variants must evaluate to the same data as separate sources; key: !include [..] must equal the merged content under key; with the same names present next to the '
              'including file and in the working directory the former must win, with the name only in the working directory that one is used; every non-empty subset of missing files (n<=4) '
              'must fail the build with an error naming a file that is really missing; !path:file/parent/parent(n) must point relative to the physical file.')
LEVEL_NOTE = 'Trusted: variant (i) (separate sources) as the baseline; the layout generator; os.path for expected locations. Missing-subset enumeration is exhaustive for n<=4, sampled beyond.'
RULE = 'seeded document sequence x directory layout x delivery variants x missing subsets; non-trivial = at least two documents share a top-level key; distinct = hash of texts+layout'
ASSUMPTIONS = ['temporary trees live under the system temp dir and are removed after each case']
TIERS = {'quick': {'cases': 1200, 'budget': 70}, 'thorough': {'cases': 15000, 'budget': 900}}
MIN_COUNTERS = {'files_opened_observed': 1, 'missing_subsets_enumerated': 1}
_counts = {'files_opened_observed': 0, 'missing_subsets_enumerated': 0, 'decoy_opened': 0, 'variants_compared': 0}
_opened = []
_root = [None]
POOL = ['a', 'b', 'c', 'd', '_u']


def _hook(event, args):
    if event == 'open' and _root[0] and isinstance(args[0], str) and _root[0] in os.path.abspath(args[0]):
        _opened.append(os.path.abspath(args[0]))


def init(tier):
    sys.addaudithook(_hook)
    return None


def finish():
    return dict(_counts)


def gen_case(rng, tier):
    n = rng.choice([1, 2, 2, 3, 3, 4])
    docs = gen.rand_merge_sequence(rng, n, depth=rng.choice([2, 3]), flags_p=rng.choice([0.1, 0.25]), specials_p=rng.choice([0, 0, 0.15]),
                                   vocab=('prio', 'del', 'md'), special_kinds=('vdel', 'clear', 'append', 'extend'), notnew=False, pool_s=POOL, hostile=False,
                                   marker=gen.Marker(), kinds=('s',))
    # make sure list-valued keys are overridden across stages
    if n >= 2 and rng.random() < 0.7:
        k = rng.choice(POOL)
        for i, d in enumerate(docs):
            if rng.random() < 0.8:
                d['items'] = [it for it in d['items'] if it[0] != k] + [[k, L([S(f'L{i}_{j}', style='dq') for j in range(rng.randrange(1, 4))])]]
    docs = [d for d in docs]
    dirs = ['m', 'm/sub', 'm/sub/deep', '.']
    files = []
    for i in range(n):
        files.append({'dir': rng.choice(dirs), 'name': f'f{i}.yaml'})
    texts = [emit.emit(d, rng.choice(['flow', 'block'])) for d in docs]
    # a !path probe document part (kept apart from the equality comparison)
    probes = [{'ref': rng.choice(['file', 'parent', 'parent(0)', 'parent(1)', 'parent(2)']), 'parts': [rng.choice(['x', 'data.bin', 'q/r'])]} for _ in range(rng.randrange(0, 3))]
    probe_doc = rng.randrange(n)
    split = sorted(rng.sample(range(1, n), rng.randrange(0, n))) if n > 1 else []
    order = list(range(n))
    if rng.random() < 0.35:
        # the same file reached more than once in one build
        for _ in range(rng.choice([1, 1, 2])):
            order.insert(rng.randrange(1, len(order) + 1), rng.randrange(n))
    ov = gen.mutate_doc(rng, emit.strip_flags(docs[0]), 2, kinds=('s',), pool_s=POOL, hostile=False, marker=gen.Marker('ov'))
    return {'order': order, 'doc0': docs[0], 'override': ov,
            'texts': texts, 'files': files, 'probes': probes, 'probe_doc': probe_doc, 'key': rng.choice(POOL + ['inc']), 'nest_split': split,
            'decoy_mode': rng.choice(['none', 'decoy', 'decoy', 'cwd_only']), 'cwd_only_idx': rng.randrange(n)}


def rel(frm_dir, to_path):
    return os.path.relpath(to_path, frm_dir)


def write(path, text):
    os.makedirs(os.path.dirname(path), exist_ok=True)
    with open(path, 'w') as f:
        f.write(text)


def _plain(v):
    import pathlib
    if isinstance(v, dict):
        return {k: _plain(x) for k, x in v.items() if k != 'pp'}
    if isinstance(v, list):
        return [_plain(x) for x in v]
    return v


def c19_despecial(doc):
    from .c19 import _despecial
    return _despecial(doc)


def observe(fn):
    o = lib.outcome(fn)
    if o[0] == 'err':
        return ('err', lib.err_kind(o[1]), o[1])
    return ('ok', util.typed(_plain(o[1])), o[1])


def with_probe(text, probes, idx):
    if not probes:
        return text
    d = M([[f'p{j}', SP('path', ref=p['ref'], parts=p['parts'])] for j, p in enumerate(probes)])
    body = emit.emit(M([['pp', d]]), 'block')
    if text.startswith('--- ') or text.lstrip().startswith('{') or text.lstrip().startswith('!'):
        return None
    return text + body


def expected_path(file_path, ref, parts):
    """location denoted by !path:<ref> written in the file at (absolute, real) file_path - computed on the absolute path, independent of
    the name the file was reached by"""
    import pathlib
    src = pathlib.Path(os.path.abspath(file_path))
    if ref == 'file':
        base = src
    else:
        m = re.match(r'parent(\((\d+)\))?', ref)
        n = int(m.group(2)) if m.group(2) else 0
        base = src.parent
        for _ in range(n):
            base = base.parent
    return os.path.abspath(os.path.normpath(str(base.joinpath(*parts))))


def run(case):
    from awesomeyaml.config import Config
    root = tempfile.mkdtemp(prefix='verif_c06_')
    _root[0] = os.path.realpath(root)
    root = _root[0]
    cwd0 = os.getcwd()
    vio = []
    feats = ['n=%d' % len(case['texts']), 'decoy_' + case['decoy_mode']]
    try:
        n = len(case['texts'])
        texts = list(case['texts'])
        pt = with_probe(texts[case['probe_doc']], case['probes'], case['probe_doc'])
        probes = case['probes'] if pt is not None else []
        if pt is not None:
            texts[case['probe_doc']] = pt
        upaths = [os.path.join(root, 'tree', f['dir'], f['name']) for f in case['files']]
        for p, t in zip(upaths, texts):
            write(p, t)
        order = case.get('order') or list(range(n))
        utexts = texts
        paths = [upaths[i] for i in order]          # the delivery sequence (a file may occur more than once)
        texts = [utexts[i] for i in order]
        if len(order) != n:
            feats.append('repeated_file')
            probes = []
        n_seq = len(order)
        mdir = os.path.join(root, 'tree', 'm')
        os.makedirs(mdir, exist_ok=True)
        cwd = os.path.join(root, 'cwd')
        os.makedirs(cwd, exist_ok=True)
        os.chdir(cwd)
        what = f'texts={texts!r} files={[os.path.relpath(p, root) for p in paths]}'
        # ---------------- baseline: n sources
        del _opened[:]
        base = observe(lambda: Config.build(*paths))
        _counts['files_opened_observed'] += len(_opened)
        feats.append('base_' + base[0])

        def check_probes(cfg, where, file_of_probe_doc):
            for j, p in enumerate(probes):
                try:
                    got = cfg['pp'][f'p{j}']
                except Exception:
                    continue          # the probe key may legitimately have been deleted by a later stage
                want = expected_path(file_of_probe_doc, p['ref'], p['parts'])
                if os.path.abspath(str(got)) != want:
                    vio.append({'mech': 'path-not-relative-to-its-file', 'what': f'[{where}] !path:{p["ref"]} {p["parts"]} written in {os.path.relpath(file_of_probe_doc, root)} evaluates to {str(got)!r} (abs {os.path.abspath(str(got))!r}), expected {want!r}; {what}'})
                else:
                    feats.append('path_probe_ok')
        if base[0] == 'ok':
            check_probes(base[2], 'sources', paths[case['probe_doc']])

        def compare(name, fn, probe_file=None):
            del _opened[:]
            got = observe(fn)
            _counts['files_opened_observed'] += len(_opened)
            _counts['variants_compared'] += 1
            feats.append('variant_' + name)
            if base[0] == 'ok':
                if got[0] != 'ok':
                    vio.append({'mech': 'variant-fails:' + name, 'what': f'separate sources build {util.short(_plain(base[2]), 300)} but delivery "{name}" raises {got[1]}: {util.short(str(got[2]), 300)}; {what}'})
                elif got[1] != base[1]:
                    vio.append({'mech': 'variant-differs:' + name, 'what': f'separate sources -> {util.short(_plain(base[2]), 300)}; delivery "{name}" -> {util.short(_plain(got[2]), 300)}; {what}'})
                elif probe_file is not None:
                    check_probes(got[2], name, probe_file)
            else:
                if got[0] != 'err' or got[1] != base[1]:
                    vio.append({'mech': 'variant-outcome-differs:' + name, 'what': f'separate sources raise {base[1]} but delivery "{name}" -> {got[0]} {got[1] if got[0] == "err" else ""}; {what}'})
            return got
        # ---------------- the same files reached by *relative* names from different working directories (no / some / only '..' components)
        if base[0] == 'ok':
            pf = paths[case['probe_doc']]
            for wd in (root, os.path.dirname(pf), os.path.join(root, 'tree'), cwd, os.path.join(os.path.dirname(pf), 'below', 'deeper')):
                os.makedirs(wd, exist_ok=True)
                os.chdir(wd)
                try:
                    names = [os.path.relpath(p, wd) for p in paths]
                    tag = 'relative_names_from_' + (os.path.relpath(wd, root).replace(os.sep, '_') or 'root')
                    got = observe(lambda: Config.build(*names))
                    _counts['variants_compared'] += 1
                    feats.append('variant_relative_sources')
                    if got[0] != 'ok' or got[1] != base[1]:
                        vio.append({'mech': 'variant-differs:relative_sources', 'what': f'sources given by absolute names -> {util.short(_plain(base[2]), 300)}; by names relative to {os.path.relpath(wd, root)!r} ({names}) -> {util.short(got[1:], 300)}; {what}'})
                    else:
                        check_probes(got[2], tag, pf)
                finally:
                    os.chdir(cwd)
        # ---------------- (ii) one multi-document file
        multi = os.path.join(mdir, 'multi.yaml')
        write(multi, ''.join(t if t.startswith('--- ') else '---\n' + t for t in texts))
        compare('multidoc', lambda: Config.build(multi), multi)
        # ---------------- (iii) top-level !include [f1..fn]
        master = os.path.join(mdir, 'master.yaml')
        write(master, '!include [' + ', '.join(rel(mdir, p) for p in paths) + ']\n')
        compare('include_list', lambda: Config.build(master), paths[case['probe_doc']])
        # ---------------- (iv) n top-level includes
        master2 = os.path.join(mdir, 'master2.yaml')
        write(master2, ''.join(f'---\n!include {rel(mdir, p)}\n' for p in paths))
        compare('n_includes', lambda: Config.build(master2), paths[case['probe_doc']])
        # ---------------- (v) recursive mixture: groups of documents, each group a file that is multi-doc or includes its members
        if n_seq >= 2:
            cuts = [0] + [c for c in case['nest_split'] if c < n_seq] + [n_seq]
            groups = [list(range(a, b)) for a, b in zip(cuts[:-1], cuts[1:]) if b > a]
            gfiles = []
            for gi, g in enumerate(groups):
                gp = os.path.join(root, 'tree', 'm', 'sub', f'group{gi}.yaml')
                if gi % 2 == 0:
                    write(gp, '!include [' + ', '.join(rel(os.path.dirname(gp), paths[i]) for i in g) + ']\n')
                else:
                    write(gp, ''.join(texts[i] if texts[i].startswith('--- ') else '---\n' + texts[i] for i in g))
                gfiles.append(gp)
            master3 = os.path.join(mdir, 'master3.yaml')
            write(master3, ''.join(f'---\n!include {rel(mdir, p)}\n' for p in gfiles) if len(gfiles) % 2 else '!include [' + ', '.join(rel(mdir, p) for p in gfiles) + ']\n')
            compare('nested', lambda: Config.build(master3))
            # mixed: first document as a source, the rest through an include
            master4 = os.path.join(mdir, 'master4.yaml')
            write(master4, '!include [' + ', '.join(rel(mdir, p) for p in paths[1:]) + ']\n')
            compare('source_then_include', lambda: Config.build(paths[0], master4), paths[case['probe_doc']])
        # ---------------- one file under two keys, then an override of one of them: inclusions must not share nodes
        if case.get('doc0') and case['doc0'].get('new') is not False:
            k1, k2 = 'first', 'second'
            d0, ov = case['doc0'], case['override']
            ref = observe(lambda: lib.build([emit.emit(M([[k1, d0], [k2, d0]]), 'flow'), emit.emit(M([[k1, ov]]), 'flow')]))
            master7 = os.path.join(mdir, 'master7.yaml')
            write(master7, f'{k1}: !include {rel(mdir, upaths[0])}\n{k2}: !include {rel(mdir, upaths[0])}\n---\n' + emit.emit(M([[k1, ov]]), 'block'))
            got7 = observe(lambda: Config.build(master7))
            feats.append('variant_two_keys_same_file')
            if ref[0] == 'ok' and with_probe(utexts[0], [], 0) is not None and case['probe_doc'] != 0 or (ref[0] == 'ok' and not case['probes']):
                if got7[0] != 'ok' or got7[1] != ref[1]:
                    vio.append({'mech': 'inclusions-share-state', 'what': f'{k1}/{k2}: !include of the same file, then an override of {k1}: got {util.short(got7[1:], 300)}, the same content written out by hand gives {util.short(_plain(ref[2]), 300)}; {what}'})
        # ---------------- (vi) key: !include [..]
        if base[0] == 'ok':
            master5 = os.path.join(mdir, 'master5.yaml')
            key = case['key']
            write(master5, f'{key}: !include [' + ', '.join(rel(mdir, p) for p in paths) + ']\n')
            del _opened[:]
            got = observe(lambda: Config.build(master5))
            feats.append('variant_key_include')
            want = util.typed({key: _plain(base[2])})
            if got[0] != 'ok' or got[1] != want:
                if _plain(base[2]):
                    vio.append({'mech': 'key-include-differs', 'what': f'{key}: !include [..] -> {util.short(got[1:], 300)} but the merged content is {util.short(_plain(base[2]), 300)}; {what}'})
            # the same below a priority tag: the files are merged with each other first (their own !force / !weak decide among
            # them), the tag above the include only matters towards other stages - with nothing else around the values are the same
            tag15 = '!force' if random.Random(util.sig(case['texts']) + 'p15').random() < 0.5 else '!weak'
            master15 = os.path.join(mdir, 'master15.yaml')
            write(master15, f'--- {tag15}\n{key}: !include [' + ', '.join(rel(mdir, p) for p in paths) + ']\n')
            got15 = observe(lambda: Config.build(master15))
            feats.append('variant_key_include_below_priority_tag')
            if (got15[0] != 'ok' or got15[1] != want) and _plain(base[2]):
                vio.append({'mech': 'key-include-below-priority-tag-differs', 'what': f'{tag15} {{{key}: !include [..]}} -> {util.short(got15[1:], 300)} but the merged content of the files is {util.short(_plain(base[2]), 300)}; {what}'})
        # ---------------- 'key: !include f' (exactly one file, exactly one document) met by an older stage that already has content
        #                  at that key: the file's content is merged on its own first (its !append / !extend become plain lists, a
        #                  !notnew document that cannot stand alone fails), then placed under the key
        lone = paths[-1]
        pre_doc = emit.strip_flags(c19_despecial(case['doc0']))
        pre_text = emit.emit(M([[case['key'], pre_doc]]), 'flow')
        m12 = os.path.join(mdir, 'master12.yaml')
        write(m12, pre_text + f'---\n{case["key"]}: !include {rel(mdir, lone)}\n')
        got12 = observe(lambda: Config.build(m12))
        # the same with an empty mapping document merged behind it (neutral by the merge laws): a stream of two documents
        write(os.path.join(mdir, 'emptymap.yaml'), '{}\n')
        m13 = os.path.join(mdir, 'master13.yaml')
        write(m13, pre_text + f'---\n{case["key"]}: !include [{rel(mdir, lone)}, emptymap.yaml]\n')
        got13 = observe(lambda: Config.build(m13))
        feats.append('variant_single_file_under_existing_key')
        root_tagged = texts[-1].startswith('--- !') or texts[-1].lstrip().startswith('!')      # (the flags of a merged root are those of the last document: '{}' is not neutral for them)
        if not root_tagged and got12[:2] != got13[:2]:
            vio.append({'mech': 'single-file-key-include-differs', 'what': f'{pre_text!r} then {case["key"]}: !include <one file> -> {util.short(got12[1:], 300)}; with an empty mapping document included behind it -> {util.short(got13[1:], 300)}; {what}'})
        # ---------------- a priority tag above the include applies to the included content like to content written in place
        d0 = case.get('doc0')
        if d0 and not any(n['t'] == 'sp' for _, n in emit.walk(d0)) and d0.get('new') is not False and with_probe(utexts[0], [], 0) is not None and case['probe_doc'] != 0:
            pr = 1 if random.Random(util.sig(case['texts'])).random() < 0.5 else -1
            pre14 = emit.emit(M([[case['key'], case['override']]]), 'flow')
            tag = '!force' if pr == 1 else '!weak'
            m14 = os.path.join(mdir, 'master14.yaml')
            write(m14, pre14 + f'--- {tag}\n{case["key"]}: !include {rel(mdir, upaths[0])}\n' + '---\n' + pre14)
            got14 = observe(lambda: Config.build(m14))
            inplace = observe(lambda: lib.build([pre14, emit.emit(M([[case['key'], copy.deepcopy(d0)]], prio=pr), 'flow'), pre14]))
            feats.append('variant_priority_above_include')
            if inplace[0] == 'ok' and got14[:2] != inplace[:2]:
                vio.append({'mech': 'priority-above-include-not-applied', 'what': f'{pre14!r}, then {tag} {{{case["key"]}: !include <file>}}, then {pre14!r} again -> {util.short(got14[1:], 300)}; with the content of the file written in place of the include -> {util.short(_plain(inplace[2]), 300)}; {what}'})
        # ---------------- '!notnew' above the include: what the file writes is checked against the config it is placed in, like
        #                  the same content written in place
        if d0 and not any(n['t'] == 'sp' for _, n in emit.walk(d0)) and d0.get('new') is not False and with_probe(utexts[0], [], 0) is not None and case['probe_doc'] != 0:
            m18 = os.path.join(mdir, 'master18.yaml')
            write(m18, pre_text + f'--- !notnew\n{case["key"]}: !include {rel(mdir, upaths[0])}\n')
            got18 = observe(lambda: Config.build(m18))
            inplace18 = observe(lambda: lib.build([pre_text, emit.emit(M([[case['key'], copy.deepcopy(d0)]], new=False), 'flow')]))
            feats.append('variant_notnew_above_include')
            if inplace18[0] == 'ok' and got18[:2] != inplace18[:2]:
                vio.append({'mech': 'notnew-above-include-differs', 'what': f'{pre_text!r}, then !notnew {{{case["key"]}: !include <file>}} -> {util.short(got18[1:], 300)}; with the content of the file written in place of the include -> {util.short(_plain(inplace18[2]), 300)}; {what}'})
        # ---------------- look-up order: decoys in the working directory
        if case['decoy_mode'] != 'none' and base[0] == 'ok':
            names = [f['name'] for f in case['files']]
            sib = os.path.join(root, 'tree', 'flat')
            spaths = [os.path.join(sib, nm) for nm in names]
            for p, t in zip(spaths, utexts):
                write(p, t)
            for nm in names:
                write(os.path.join(cwd, nm), 'DECOY: true\n')
            master6 = os.path.join(sib, 'master6.yaml')
            write(master6, '!include [' + ', '.join(names[i] for i in order) + ']\n')
            if case['decoy_mode'] == 'cwd_only':
                i = case['cwd_only_idx']
                os.remove(spaths[i])
                write(os.path.join(cwd, names[i]), utexts[i])         # found nowhere else: the working directory must serve it
            del _opened[:]
            got = observe(lambda: Config.build(master6))
            _counts['files_opened_observed'] += len(_opened)
            _counts['decoy_opened'] += sum(1 for o in _opened if o.startswith(cwd))
            if got[0] != 'ok' or got[1] != base[1]:
                vio.append({'mech': 'lookup-order', 'what': f'names {names} exist next to the including file and in the working directory ({case["decoy_mode"]}); expected the including file\'s directory to win: got {util.short(got[1:], 300)}, want {util.short(_plain(base[2]), 300)}; opened={[os.path.relpath(o, root) for o in _opened]}; {what}'})
            else:
                feats.append('lookup_order_ok')
        # ---------------- odd but legal layouts: a file without any document in the sequence, a name whose directory part exists
        #                  next to the including file as a *regular file* (look-up must fall through to the working directory),
        #                  a source given as ~/...
        if base[0] == 'ok':
            pos = int(random.Random(util.sig(case)).random() * (n_seq + 1))
            empty = os.path.join(mdir, 'empty.yaml')
            write(empty, '# nothing in here\n')
            with_empty = paths[:pos] + [empty] + paths[pos:]
            compare('sources_with_empty_file', lambda: Config.build(*with_empty))
            m8 = os.path.join(mdir, 'master8.yaml')
            write(m8, ''.join(f'---\n!include {rel(mdir, p)}\n' for p in with_empty))
            compare('n_includes_with_empty_file', lambda: Config.build(m8))
            m9 = os.path.join(mdir, 'master9.yaml')
            write(m9, '!include [' + ', '.join(rel(mdir, p) for p in with_empty) + ']\n')
            compare('include_list_with_empty_file', lambda: Config.build(m9))
            m10 = os.path.join(mdir, 'master10.yaml')
            write(m10, 'kept: 1\nek: !include empty.yaml\n')
            o = observe(lambda: Config.build(m10))
            feats.append('variant_key_include_of_empty_file')
            if o[0] != 'ok' or o[1] != util.typed({'kept': 1, 'ek': {}}):
                vio.append({'mech': 'empty-file-under-key', 'what': f"'ek: !include empty.yaml' (a file without documents) next to 'kept: 1' -> {util.short(o[1:], 300)}, expected {{'kept': 1, 'ek': {{}}}}"})
            # nothing but includes of files without documents: as much as giving those files as sources (an empty config)
            m16 = os.path.join(mdir, 'master16.yaml')
            write(m16, '!include empty.yaml\n' if pos % 2 else '!include [empty.yaml, empty.yaml]\n')
            o = observe(lambda: Config.build(m16))
            oe = observe(lambda: Config.build(empty))
            feats.append('variant_only_empty_includes')
            if oe[0] == 'ok' and o[:2] != oe[:2]:
                vio.append({'mech': 'only-empty-includes-differ', 'what': f"a file consisting of {open(m16).read()!r} (empty.yaml holds no document) -> {util.short(o[1:], 300)}; empty.yaml given as the source -> {util.short(oe[1:], 300)}"})
            # a folder of the file's name next to the including file (look-up must fall through like for any other miss)
            dd = os.path.join(root, 'tree', 'dd')
            os.makedirs(os.path.join(dd, 'inc.yaml'), exist_ok=True)
            write(os.path.join(cwd, 'inc.yaml'), utexts[0])
            m17 = os.path.join(dd, 'master17.yaml')
            write(m17, '!include inc.yaml\n')
            o = observe(lambda: Config.build(m17))
            refd = observe(lambda: Config.build(os.path.join(cwd, 'inc.yaml')))
            feats.append('variant_folder_in_the_way')
            if refd[0] == 'ok' and (o[0] != 'ok' or o[1] != refd[1]):
                vio.append({'mech': 'lookup-stops-at-folder', 'what': f"'!include inc.yaml' from a folder where 'inc.yaml' is a directory, inc.yaml exists in the working directory: {util.short(o[1:], 300)}; expected the working directory to serve it: {util.short(refd[1], 200)}"})
            os.remove(os.path.join(cwd, 'inc.yaml'))
            # a regular file in the way
            nd = os.path.join(root, 'tree', 'nd')
            os.makedirs(nd, exist_ok=True)
            write(os.path.join(nd, 'conf'), 'i am a regular file\n')
            write(os.path.join(cwd, 'conf', 'x.yaml'), utexts[0])
            m11 = os.path.join(nd, 'master11.yaml')
            write(m11, '!include conf/x.yaml\n')
            o = observe(lambda: Config.build(m11))
            feats.append('variant_regular_file_in_the_way')
            ref0 = observe(lambda: Config.build(os.path.join(cwd, 'conf', 'x.yaml')))
            if ref0[0] == 'ok' and (o[0] != 'ok' or o[1] != ref0[1]):
                vio.append({'mech': 'lookup-stops-at-regular-file', 'what': f"'!include conf/x.yaml' from a folder where 'conf' is a regular file, conf/x.yaml exists in the working directory: {util.short(o[1:], 300)}; expected the working directory to serve it: {util.short(ref0[1], 200)}"})
            shutil.rmtree(os.path.join(cwd, 'conf'), ignore_errors=True)
            # ~/ names
            home0 = os.environ.get('HOME')
            os.environ['HOME'] = root
            try:
                names = ['~/' + os.path.relpath(p, root) for p in paths]
                got = observe(lambda: Config.build(*names))
                feats.append('variant_home_relative_sources')
                if got[0] != 'ok' or got[1] != base[1]:
                    vio.append({'mech': 'variant-differs:home_relative_sources', 'what': f'sources given as {names} (HOME={root}) -> {util.short(got[1:], 300)}; by absolute names -> {util.short(_plain(base[2]), 300)}; {what}'})
                else:
                    check_probes(got[2], 'home_relative_sources', paths[case['probe_doc']])
            finally:
                if home0 is None:
                    os.environ.pop('HOME', None)
                else:
                    os.environ['HOME'] = home0
        # ---------------- fault enumeration: every subset of missing files (no decoys left in the working directory)
        for nm in os.listdir(cwd):
            os.remove(os.path.join(cwd, nm))
        if n <= 4:
            subsets = [s for r in range(1, n + 1) for s in itertools.combinations(range(n), r)]
        else:
            subsets = [tuple(sorted(random.Random(util.sig(case)).sample(range(n), 2)))]
        for ss in subsets:
            for i in ss:
                os.rename(upaths[i], upaths[i] + '.gone')
            try:
                for mname, mfile in (('include_list', master), ('n_includes', master2)):
                    o = lib.outcome(lambda: Config.build(mfile))
                    _counts['missing_subsets_enumerated'] += 1
                    gone = [case['files'][i]['name'] for i in ss]
                    if o[0] == 'ok':
                        vio.append({'mech': 'missing-file-ignored', 'what': f'files {gone} are missing but delivery "{mname}" built {util.short(_plain(o[1]), 200)}; {what}'})
                    else:
                        msg = ' '.join(str(x) for x in util.exc_chain(o[1]))
                        named = [g for g in gone if g in msg]
                        wrongly = [f['name'] for j, f in enumerate(case['files']) if j not in ss and re.search(r"'missing': \[[^\]]*" + re.escape(f['name']), msg)]
                        if lib.err_kind(o[1]) != 'PreprocessError' and not any(isinstance(x, FileNotFoundError) for x in util.exc_chain(o[1])):
                            vio.append({'mech': 'missing-file-wrong-error', 'what': f'files {gone} missing: expected PreprocessError/FileNotFoundError, got {lib.describe(o)}; {what}'})
                        elif not named:
                            vio.append({'mech': 'missing-file-not-named', 'what': f'files {gone} missing but the error names none of them: {util.short(msg, 300)}; {what}'})
                        elif wrongly:
                            vio.append({'mech': 'existing-file-reported-missing', 'what': f'{wrongly} exist but are reported missing: {util.short(msg, 300)}; {what}'})
            finally:
                for i in ss:
                    os.rename(upaths[i] + '.gone', upaths[i])
    finally:
        os.chdir(cwd0)
        _root[0] = None
        shutil.rmtree(root, ignore_errors=True)
    tops = []
    for t in case['texts']:
        tops.append(set(re.findall(r'^([A-Za-z_]\w*):', t, re.M)) | set(re.findall(r'[{,] ?([A-Za-z_]\w*):', t.split('\n')[0])))
    shared = any(tops[i] & tops[j] for i in range(len(tops)) for j in range(i))
    res = {'status': 'violation' if vio else 'ok', 'nontrivial': shared, 'feats': sorted(set(feats)), 'sig': util.sig([case['texts'], case['files']]), 'evals': 6}
    if vio:
        seen = set()
        res['violations'] = [v for v in vio if not (v['mech'] in seen or seen.add(v['mech']))][:4]
    return res
