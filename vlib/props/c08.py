"""C08 - !notnew (and command-line overrides) can change but never create paths.

History + model: (a) base documents followed by an overriding document with
!notnew / !new at random heights, judged by the path-set rule of model.py and,
independently of the model, by "no path exists afterwards that did not exist
before unless it lies below a !new"; (b) Config.build_from_cmdline with
override strings built from real and from mutated paths of the base.
"""
import re
import copy
import random

from .. import gen, emit, lib, util, model, calib
from ..emit import M, L, S, SP
from . import c05

ID = 'C08'
LEVEL = 'exploration'
TECHNIQUE = 'runtime monitoring: differential execution against the path-set model (calibrated on the new_and_notnew fixtures) plus a model-free frame condition; command-line grammar exercised through the real entry point'
LEVEL_TEXT = ('Held on the generated cases only: random base configs (maps/lists, depth<=4) with overriding documents carrying !notnew/!new at random heights '
              '(incl. the root and the first stage), and command-line overrides a.b[i].c=value over existing, mistyped, out-of-range, too-long and too-short paths with '
              'every YAML scalar spelling, lists and mappings as values. Success must equal the recursive update restricted to existing paths; failure must be a MergeError naming a path '
              'that really is missing.')
LEVEL_NOTE = 'Trusted: model.py (path-set rule + C02 fold), calibrated on 11 new_and_notnew fixtures. Path components are simple names and non-negative/negative ints; values are flow-safe YAML.'
RULE = ('seeded base + override document / override string; non-trivial = the override writes at least one existing and, in half of the cases, one missing path; distinct = hash of texts/args')
ASSUMPTIONS = ['error text names the offending node as Node <path>']
TIERS = {'quick': {'cases': 3000, 'budget': 60}, 'thorough': {'cases': 100000, 'budget': 900}}
POOL = ['a', 'b', 'c', 'd', '_u', 'k1']
_NODE_RE = re.compile(r"Node '([^']*)'")


def init(tier):
    return calib.calibrate(['new_and_notnew'], lambda docs: model.plain(model.build(docs)), min_used=8)


def paths_of(plain, pre=()):
    out = {pre}
    if isinstance(plain, dict):
        for k, v in plain.items():
            out |= paths_of(v, pre + (k,))
    elif isinstance(plain, list):
        for i, v in enumerate(plain):
            out |= paths_of(v, pre + (i,))
    return out


def gen_case(rng, tier):
    base = gen.rand_sequence(rng, rng.choice([1, 1, 2]), rng.choice([2, 3, 4]), kinds=('s',), pool_s=POOL, hostile=False, marker=gen.Marker(), allow_empty=True,
                             pathlike=0)        # keys spelled like paths cannot be addressed through the command-line grammar
    if rng.random() < 0.5:
        return gen_notnew(rng, base)
    return gen_cmdline(rng, base)


def gen_notnew(rng, base):
    ov = gen.mutate_doc(rng, base[-1], 3, kinds=('s',), pool_s=POOL, hostile=False, marker=gen.Marker('w'))
    if rng.random() < 0.65:
        # keep only what already exists in the base, so that the merge is expected to succeed
        try:
            have = paths_of(model.plain(model.build(copy.deepcopy(base))))
        except (model.ModelError, model.OutOfDomain):
            return None
        ov = _prune(ov, have, rng)
    nodes = [(p, n) for p, n in emit.walk(ov) if n['t'] in ('map', 'seq')]
    p, n = rng.choice(nodes[:3] if rng.random() < 0.6 else nodes)
    n['new'] = False
    if rng.random() < 0.25 and n.get('prio') is None:
        # the same node also carries a priority (both can only be written as one metadata tag): the ban on new paths still reaches
        # everything below it
        n['prio'] = rng.choice([1, 1, -1])
        n['mdsyn'] = rng.choice(['hex', 'brace'])
    for q, m in nodes:
        if len(q) > len(p) and q[:len(p)] == p and rng.random() < 0.2:
            m['new'] = True
    if rng.random() < 0.25:
        ov = gen.place_flags(rng, ov, p=0.15, vocab=('prio', 'del'), on_seq_elems=False)
    if rng.random() < 0.2 and n['t'] == 'map':
        # the !notnew node also deletes, and the older mapping holds an entry protected by a higher priority: what the deletion
        # removes first did exist, writing it again creates nothing
        from .c16 import put
        n['del'] = True
        base = copy.deepcopy(base)
        where = tuple(p)
        # (not inside list elements: a protected entry there makes the list renumber its survivors - the recorded C15 finding)
        inner = [q for q, m in nodes if len(q) > len(p) and q[:len(p)] == tuple(p) and m['t'] == 'map' and all(isinstance(c, str) for c in q)]
        if inner and rng.random() < 0.5:
            where = tuple(rng.choice(inner))       # ... also when the protected entry sits further down: the removed paths are those of the whole merge
        try:
            put(base[-1], where + ('zz_prot',), S(255, prio=1))
        except Exception:
            pass
    if rng.random() < 0.3:
        for _, n in list(emit.walk(ov)):
            if n['t'] == 'sc' and not emit.has_flags(n) and rng.random() < 0.3:
                f = _fn(rng)
                n.clear()
                n.update(f)
    docs = base + [ov]
    if rng.random() < 0.06:
        docs = [ov]                   # !notnew in a first document
    style = rng.choice(['flow', 'block'])
    return {'kind': 'notnew', 'docs': docs, 'texts': [emit.emit(d, style) for d in docs]}


def _fn(rng):
    """a function node as the written value: its arguments are paths like any other (!call:dict evaluates to exactly its keyword arguments)"""
    return SP('call', func='dict', args=M([[k, gen.scalar_node(rng, rng.choice([1, 2.5, 'w', True]))] for k in rng.sample(POOL, rng.randrange(0, 3))]))


def _prune(doc, have, rng, path=()):
    d = copy.deepcopy(doc)
    if d['t'] == 'map':
        d['items'] = [[k, _prune(c, have, rng, path + (k,))] for k, c in d['items'] if path + (k,) in have]
    elif d['t'] == 'seq':
        n = sum(1 for q in have if len(q) == len(path) + 1 and q[:len(path)] == path)
        d['items'] = [_prune(c, have, rng, path + (i,)) for i, c in enumerate(d['items'][:n])]
    return d


def gen_cmdline(rng, base):
    try:
        bplain = model.plain(model.build(copy.deepcopy(base)))
    except (model.ModelError, model.OutOfDomain):
        return None
    allp = sorted((p for p in paths_of(bplain) if p), key=repr)
    overrides = []
    fn_paths = []
    for _ in range(rng.choice([1, 1, 2, 3])):
        if not allp:
            break
        path = list(rng.choice(allp))
        mode = rng.choice(['exact', 'exact', 'exact', 'typo', 'oob', 'extra', 'neg'])
        if mode == 'typo':
            i = rng.randrange(len(path))
            path[i] = (path[i] + 'x') if isinstance(path[i], str) else path[i] + 7
        elif mode == 'oob':
            ints = [i for i, c in enumerate(path) if isinstance(c, int)]
            if ints:
                path[rng.choice(ints)] += 50
        elif mode == 'extra':
            path.append(rng.choice(['zz', 0]))
        elif mode == 'neg':
            cur = bplain
            for i, c in enumerate(path):
                if isinstance(cur, list) and isinstance(c, int):
                    if rng.random() < 0.7:
                        path[i] = c - len(cur)
                cur = cur[c]
        r = rng.random()
        if r < 0.6:
            v = gen.scalar_node(rng, gen.rand_scalar(rng, hostile=False))
            if v.get('nf') == '':
                v['nf'] = 'null'
        elif r < 0.75:
            v = L([gen.scalar_node(rng, gen.rand_scalar(rng, False)) for _ in range(rng.randrange(0, 3))])
        elif r < 0.87:
            v = _fn(rng)
        else:
            v = M([[rng.choice(POOL), gen.scalar_node(rng, gen.rand_scalar(rng, False))] for _ in range(rng.randrange(0, 2))])
        for _, sn in emit.walk(v):
            if sn['t'] == 'sc' and sn.get('nf') == '':
                sn['nf'] = '~'
        if any(tuple(path[:len(fp)]) == fp for fp in fn_paths) or (fn_paths and any(isinstance(c, int) for c in path)) or (v['t'] == 'sp' and mode == 'neg'):
            continue        # what a later string / mapping / list does to a function node is C13's table, not this property
                            # (list positions can be spelled in two ways: no index paths once a function node was written)
        if v['t'] == 'sp':
            fn_paths.append(tuple(path))
        overrides.append({'path': path, 'value': v})
    style = rng.choice(['flow', 'block'])
    return {'kind': 'cmdline', 'docs': base, 'texts': [emit.emit(d, style) for d in base], 'overrides': overrides}


def override_arg(ov):
    s = ''
    for c in ov['path']:
        if isinstance(c, int):
            s += f'[{c}]'
        else:
            s += ('.' if s else '') + c
    return s + '=' + emit.flow(ov['value'])


def override_doc(ov):
    d = ov['value']
    for c in reversed(ov['path']):
        d = M([[c, d]])
    d = copy.deepcopy(d)
    d['new'] = False
    return d


def run(case):
    feats = [case['kind']]
    docs = copy.deepcopy(case['docs'])
    args = None
    if case['kind'] == 'cmdline':
        if any(not isinstance(ov['path'][0], str) for ov in case['overrides']) or not case['overrides']:
            return {'status': 'skip', 'feats': ['cmdline_path_starts_with_index']}
        args = [override_arg(ov) for ov in case['overrides']]
        docs = docs + [override_doc(ov) for ov in case['overrides']]
    from . import c14
    has_fn = any(n['t'] == 'sp' for d in docs for _, n in emit.walk(d))
    if has_fn:
        feats.append('function_node_value')
        docs = [c14.to_model(d) for d in docs]
    try:
        exp = ('ok', model.plain(model.build(copy.deepcopy(docs), strict_domain=True)))
    except model.OutOfDomain:
        return {'status': 'skip', 'feats': ['out_of_domain']}
    except model.ModelError as e:
        exp = ('err', e.kind, e.path)
    if case['kind'] == 'cmdline':
        from awesomeyaml.config import Config
        srcs = [t if ('\n' in t.strip() or (t.strip().startswith('{') and t.strip().endswith('}'))) else t + '\n# pad\n' for t in case['texts']]
        got = lib.outcome(lambda: Config.build_from_cmdline(*srcs, *args))
    else:
        got = lib.outcome(lambda: lib.build(case['texts']))
    what = f'texts={case["texts"]!r}' + (f' args={args!r}' if args else '')
    vio = []
    feats.append('expect_' + (exp[0] if exp[0] == 'ok' else exp[1]))
    if exp[0] == 'ok':
        if got[0] != 'ok':
            vio.append({'mech': 'rejects-valid-override', 'what': f'every written path exists, model = {util.short(exp[1], 300)}, but build {lib.describe(got)}; {what}'})
        elif util.typed(c05._plain(got[1])) != util.typed(exp[1]):
            vio.append({'mech': 'differs-from-model', 'what': f'build = {util.short(c05._plain(got[1]), 300)}, model = {util.short(exp[1], 300)}; {what}'})
    else:
        if got[0] == 'ok':
            vio.append({'mech': 'creates-path-or-misses-error', 'what': f'model expects {exp[1]} at {exp[2]!r} but build succeeded: {util.short(c05._plain(got[1]), 300)}; {what}'})
        elif lib.err_kind(got[1]) != exp[1]:
            vio.append({'mech': 'wrong-error-class', 'what': f'model expects {exp[1]}, build {lib.describe(got)}; {what}'})
        elif exp[1] == 'MergeError' and len(docs) > 1 and not any(n.get('del') is not None or n.get('prio') for _, n in emit.walk(docs[-1])):
            # the error must name a path that is really missing from the config built so far
            named = _NODE_RE.findall(' '.join(str(x) for x in util.exc_chain(got[1])))
            try:
                before = model.plain(model.build(copy.deepcopy(docs[:-1]))) if case['kind'] == 'notnew' else None
            except (model.ModelError, model.OutOfDomain):
                before = None
            if before is not None and named:
                have = {gen.path_str(p) for p in paths_of(before)}
                if None not in have and all(n in have for n in named):
                    vio.append({'mech': 'error-names-existing-path', 'what': f'MergeError names {named} but all of them exist in the config built so far; {what}'})
                feats.append('error_path_checked')
    # model-free frame condition for the !notnew case without any !new: no new path may appear
    if case['kind'] == 'notnew' and got[0] == 'ok' and len(docs) > 1:
        ov = docs[-1]
        if ov.get('new') is False and not any(n.get('new') for _, n in emit.walk(ov) if n is not ov) and not any(n.get('del') is not None or n.get('prio') for _, n in emit.walk(ov)):
            try:
                before = model.plain(model.build(copy.deepcopy(docs[:-1])))
                extra = paths_of(c05._plain(got[1])) - paths_of(before)
                # list replacement may shorten but never extend; mapping keys may not appear
                if extra:
                    vio.append({'mech': 'new-path-under-notnew', 'what': f'paths {sorted(extra, key=repr)[:3]} did not exist before the !notnew document was merged; {what}'})
                feats.append('frame_checked')
            except (model.ModelError, model.OutOfDomain):
                pass
    nt = len(docs) > 1
    res = {'status': 'violation' if vio else 'ok', 'nontrivial': nt, 'feats': feats, 'sig': util.sig([case['texts'], args])}
    if vio:
        res['violations'] = vio
    return res
