"""C07 - unsafe content never reaches executed code, whatever is merged around it.

Origin-taint monitor.  Origin is attached to things merging cannot alter: every
target name, module name and piece of code written by unsafe content carries a
"u" name (verif_targets.u17, vtaint_17, T.u17()), every data value written by
unsafe content is a TAINT<n> marker.  Recording targets (M-targets), a synthetic
module finder on sys.meta_path (M-audit) and the evaluated values themselves
tell what ran and what it saw.  The oracle is one-directional: it never objects
to the library refusing safe content that was merged with unsafe material.
"""
import os
import sys
import copy
import types
import random
import shutil
import tempfile
import importlib.abc
import importlib.machinery

from .. import gen, emit, lib, util
from ..emit import M, L, S, SP
from .c16 import put

ID = 'C07'
LEVEL = 'exploration'
TECHNIQUE = 'runtime monitoring: origin-taint tracking through uniquely named recording targets, a sys.meta_path import monitor and tainted data markers, over merge histories and evaluation orders'
LEVEL_TEXT = ('Held on the generated histories only: !call, !bind, !eval, f-string and !import nodes x unsafe mechanism (tag on the node, on an ancestor 1-3 levels up, on the root, '
              'safe=False source, !include from unsafe content) x merge histories on the same path (placeholders before, argument / name / function-node overrides after, !del and re-add, '
              'priorities, !prev moves, !append feeding lists) x reference chains of length 1-4 from executed nodes into data of mixed origin, with every unsafe value placed both before and '
              'after its consumer, at top level and nested in a safe container. No u-named target may be called, no vtaint module imported, no TAINT marker may reach a call, evaluated code or an '
              'f-string; a build with a surviving unsafe dynamic node must fail with UnsafeError.')
LEVEL_NOTE = ('Trusted: origin coded in names at generation time (merging cannot change a name or a value); verif_targets log; the meta_path monitor. '
              'One-directional: refusing safe content is never reported.')
RULE = 'seeded scenario; non-trivial = at least one unsafe-origin dynamic node or one tainted value with a consumer, merged with at least one other stage or referenced through a chain; distinct = hash of texts+flags'
ASSUMPTIONS = ['the recording targets are harmless: a violation means foreign code ran inside the child process']
TIERS = {'quick': {'cases': 2500, 'budget': 60}, 'thorough': {'cases': 80000, 'budget': 900}}
MIN_COUNTERS = {'safe_target_calls': 1, 'unsafe_errors_seen': 1}
_counts = {'safe_target_calls': 0, 'unsafe_errors_seen': 0, 'imports_seen': 0}
IMPORTS = []


class _Finder(importlib.abc.MetaPathFinder, importlib.abc.Loader):
    """serves synthetic modules vtaint_<n> / vsafe_<n> and records every import of them"""
    def find_spec(self, name, path, target=None):
        if name.startswith('vtaint_') or name.startswith('vsafe_'):
            return importlib.machinery.ModuleSpec(name, self)
        return None

    def create_module(self, spec):
        return None

    def exec_module(self, module):
        IMPORTS.append(module.__name__)
        import verif_targets
        module.thing = ('thing of', module.__name__)
        module.f = getattr(verif_targets, ('u' if module.__name__.startswith('vtaint_') else 's') + 'mod' + module.__name__.split('_')[1])


def init(tier):
    sys.meta_path.insert(0, _Finder())
    return None


def finish():
    return dict(_counts)


# ------------------------------------------------------------------ generation
class Scn:
    def __init__(self, rng):
        self.rng = rng
        self.n = 0
        self.docs = []          # list of {'doc': M, 'safe': bool}
        self.notes = []

    def uid(self):
        self.n += 1
        return self.n

    def doc(self, unsafe_how=None):
        """unsafe_how: None | 'source' | 'root'"""
        d = {'doc': M([]), 'safe': unsafe_how != 'source', 'unsafe': unsafe_how is not None}
        if unsafe_how == 'root':
            d['doc']['unsafe'] = True
        self.docs.append(d)
        return d

    def dyn(self, kind, unsafe):
        i = self.uid()
        p = 'u' if unsafe else 's'
        if kind == 'call':
            return SP('call', func=f'verif_targets.{p}{i}', args=M([['x', S(i)]]))
        if kind == 'bind':
            return SP('bind', func=f'{"vtaint" if unsafe else "vsafe"}_{i}.f', args=M([['x', S(i)]]))
        if kind == 'eval':
            return SP('eval', code=f'T.{p}{i}({i})')
        if kind == 'eval2':
            return SP('eval', code=f'y = {i}\nT.{p}{i}(y)')
        if kind == 'fstr':
            return SP('fstr', text='v{T.' + f'{p}{i}({i})' + '.name}')
        if kind == 'import':
            return SP('import', name=f'{"vtaint" if unsafe else "vsafe"}_{i}.thing')
        raise ValueError(kind)


KINDS = ['call', 'call', 'bind', 'eval', 'eval2', 'fstr', 'import']


def wrap_unsafe(rng, node, depth):
    """put `node` under `depth` container levels, the outermost of which is tagged !unsafe; returns (outer node, relative path)"""
    path = []
    cur = node
    for lvl in range(depth):
        if rng.random() < 0.6:
            k = rng.choice(['in', 'sub', 'z'])
            cur = M([['pad', S(0)], [k, cur]])
            path.insert(0, k)
        else:
            cur = L([S('pad', style='dq'), cur])
            path.insert(0, 1)
    cur['unsafe'] = True
    return cur, path


def gen_case(rng, tier):
    s = Scn(rng)
    safe1 = s.doc()
    # --- one or two unsafe documents / tags
    how = rng.choice(['tag', 'tag', 'ancestor', 'ancestor', 'root', 'source', 'include'])
    extra_files = {}
    udoc = None
    if how in ('root', 'source'):
        udoc = s.doc(how)
    if how == 'include':
        udoc = {'doc': M([]), 'safe': True, 'unsafe': True, 'included': True}
    safe2 = s.doc() if rng.random() < 0.7 else None
    ordered = [d for d in s.docs]
    # exactly one unsafe element per case (an unsafe node that is refused aborts the build and would mask everything after it);
    # everything else is safe and must keep working
    focus = rng.choice(['dyn', 'dyn', 'taint', 'taint', 'deep', 'deep', 'rename', 'alias', 'rec', 'override', 'late_marker', 'tagged_fstr', 'dyn_key', 'placeholder'])
    # --- dynamic nodes with merge histories
    keys = []
    n_dyn = rng.choice([1, 1, 2, 3])
    focus_dyn = rng.randrange(n_dyn) if focus == 'dyn' else -1
    for j in range(n_dyn):
        key = f'k{j}'
        kind = rng.choice(KINDS)
        unsafe = j == focus_dyn
        node = s.dyn(kind, unsafe)
        hist = rng.choice(['single', 'single', 'placeholder_before', 'args_after', 'name_after', 'fn_after', 'del_readd', 'weak_placeholder', 'prev_move', 'force_unsafe'])
        if unsafe:
            if how in ('root', 'source', 'include'):
                host, rel = udoc, []
                val = node
            elif how == 'tag':
                host, rel = safe1, []
                node['unsafe'] = True
                if node.get('kind') in ('fstr', 'import'):
                    # no tag syntax for these kinds: put them under an unsafe container instead
                    node.pop('unsafe')
                    val, rel = wrap_unsafe(rng, node, 1)
                else:
                    val = node
                    if emit.md_dict(node):
                        node['mdsyn'] = rng.choice(['hex', 'brace'])
            else:
                host = safe1
                val, rel = wrap_unsafe(rng, node, rng.choice([1, 2, 3]))
        else:
            host, rel, val = safe1, [], node
        if hist == 'force_unsafe' and unsafe and not rel:
            val['prio'] = 1
            if emit.md_dict(val) and len(emit.md_dict(val)) > 1:
                val['mdsyn'] = 'hex'
        put(host['doc'], (key,), val)
        full = [key] + rel
        # histories need the dynamic node directly at the key
        if rel:
            hist = 'single'
        later = safe2 if safe2 is not None else None
        if hist in ('placeholder_before', 'weak_placeholder') and host is not safe1:
            ph = rng.choice([SP('required'), S(5), S(None, nf='~'), M([])])
            if hist == 'weak_placeholder' and ph['t'] != 'sp':
                ph['prio'] = -1
            put(safe1['doc'], (key,), ph)
        elif hist == 'args_after' and later and kind in ('call', 'bind'):
            put(later['doc'], (key,), rng.choice([M([['x', S(99)]]), M([['y', S(98)]]), L([S(97)])]))
        elif hist == 'name_after' and later and kind in ('call', 'bind'):
            i = s.uid()
            put(later['doc'], (key,), S(f'verif_targets.s{i}' if kind == 'call' else f'vsafe_{i}.f', style='dq'))
        elif hist == 'fn_after' and later and kind in ('call', 'bind'):
            put(later['doc'], (key,), s.dyn(kind, False))
        elif hist == 'del_readd' and later:
            put(later['doc'], (key,), S(None, vdel=True))
        elif hist == 'prev_move' and later and not rel:
            put(later['doc'], (f'moved{j}',), SP('prev', path=key))
        keys.append(key)
    # --- data of mixed origin and consumers with reference chains
    n_data = rng.choice([0, 1, 1, 2]) if focus != 'taint' else rng.choice([1, 1, 2])
    focus_data = rng.randrange(n_data) if focus == 'taint' else -1
    for j in range(n_data):
        tainted = j == focus_data
        i = s.uid()
        marker = f'TAINT{i}' if tainted else f'clean{i}'
        dkey = f'd{j}'
        before = rng.random() < 0.5            # document order: value before or after its consumer
        nested = rng.random() < 0.4
        if tainted:
            if how in ('root', 'source', 'include'):
                host = udoc
                val = S(marker, style='dq') if not nested else M([['inner', S(marker, style='dq')]])
            else:
                host = safe1
                if nested:
                    val = M([['inner', S(marker, style='dq', unsafe=True)], ['pad', S(1)]])
                else:
                    val = S(marker, style='dq', unsafe=True)
        else:
            host = safe1
            val = S(marker, style='dq') if not nested else M([['inner', S(marker, style='dq')]])
        tpath = dkey + ('.inner' if nested else '')
        # chain of references
        chain_len = rng.choice([0, 1, 2, 4])
        cur = tpath
        chain_items = []
        for c in range(chain_len):
            ck = f'x{j}_{c}'
            chain_items.append([ck, SP('xref', path=cur)])
            cur = ck
        i2 = s.uid()
        ckind = rng.choice(['call', 'call', 'eval', 'fstr', 'bindarg', 'eval_nested_fn', 'call_container', 'nested_first', 'nested_first', 'eval_ayns'])
        name_expr = cur.split('.')[0] + ''.join(f'["{c}"]' for c in cur.split('.')[1:])
        if ckind == 'call':
            cons = SP('call', func=f'verif_targets.s{i2}', args=L([SP('xref', path=cur)]))
        elif ckind == 'nested_first':
            # a sibling argument that opens (and leaves) a gated section of its own *before* the unsafe one is reached
            first = rng.choice([SP('call', func=f'verif_targets.s{i2}n', args=M([['z', S(1)]])), SP('bind', func=f'verif_targets.s{i2}n', args=M([])),
                                SP('eval', code='clean_top + 1'), SP('fstr', text='{clean_top}')])
            cons = SP('call', func=f'verif_targets.s{i2}', args=M([['first', first], ['second', SP('xref', path=cur)]]))
        elif ckind == 'call_container':
            cons = SP('call', func=f'verif_targets.s{i2}', args=M([['whole', SP('xref', path=cur.split('.')[0])]]))
        elif ckind == 'bindarg':
            cons = SP('call', func=f'verif_targets.s{i2}', args=M([['p', SP('bind', func=f'verif_targets.s{i2}b', args=M([['a', SP('xref', path=cur)]]))]]))
        elif ckind == 'eval_ayns':
            # the other way evaluated code can reach config entries: the ayns.cfg object handed to it
            cons = SP('eval', code=f'T.s{i2}(ayns.cfg.' + cur.split('.')[0] + ''.join(f'["{c}"]' for c in cur.split('.')[1:]) + ')')
        elif ckind == 'eval':
            cons = SP('eval', code=f'T.s{i2}({name_expr})')
        elif ckind == 'eval_nested_fn':
            cons = SP('eval', code=f'def g():\n    return [{name_expr} for _ in range(1)]\nT.s{i2}(g())')
        else:
            cons = SP('fstr', text='seen {' + name_expr + '}')
        items_val = [[dkey, val]]
        items_cons = chain_items + [[f'c{j}', cons]]
        chost = safe1
        if host is chost:
            seq = (items_val + items_cons) if before else (items_cons + items_val)
            for k_, n_ in seq:
                put(chost['doc'], (k_,), n_)
        else:
            put(host['doc'], (dkey,), val)
            for k_, n_ in items_cons:
                put(chost['doc'], (k_,), n_)
        if rng.random() < 0.2 and tainted and safe2 is not None:
            # a list grown by unsafe content and consumed by a safe call
            put(safe1['doc'], (f'lst{j}',), L([S(f'clean{s.uid()}', style='dq')]))
    # --- deep patches: unsafe content merged *into* a safe container that sits below a merge flag, in a list, or among the
    #     arguments of a call (the container inherits flags; the patch is only implicitly unsafe: marker at least one level up)
    for j in range(1 if focus == 'deep' else 0):
        i = s.uid()
        shape = rng.choice(['merge_anc', 'del_anc', 'list_item', 'call_arg', 'plain'])
        bk = f'base{j}'
        payload_kind = rng.choice(['dyn', 'dyn', 'taint'])
        if payload_kind == 'dyn':
            payload_key, payload = 'hook', s.dyn(rng.choice(['call', 'eval', 'import', 'fstr', 'bind']), True)
        else:
            payload_key, payload = 'val', S(f'TAINT{i}', style='dq')
        if shape in ('merge_anc', 'del_anc', 'plain'):
            basev = M([['opts', M([['a', S(1)]])], ['other', S(2)]])
            if shape != 'plain':
                basev['del'] = shape == 'del_anc'
            patch = M([['opts', M([[payload_key, payload]])]])
            if shape == 'del_anc':
                patch['items'].append(['other', S(2)])
            cons_path = f'{bk}.opts.val'
        elif shape == 'list_item':
            basev = L([M([['a', S(1)]]), S(5)])
            patch = M([[0, M([[payload_key, payload]])]])
            cons_path = f'{bk}[0].val'
        else:
            i3 = s.uid()
            basev = SP('call', func=f'verif_targets.s{i3}', args=M([['cfg', M([['a', S(1)]])], ['n', S(3)]]))
            patch = M([['cfg', M([[payload_key, payload]])]])
            cons_path = None
        put(safe1['doc'], (bk,), basev)
        # where the unsafe patch comes from
        if how in ('root', 'source', 'include') and udoc is not None:
            put(udoc['doc'], (bk,), patch)
        else:
            later = safe2 if safe2 is not None else s.doc()
            if later not in ordered:
                ordered.append(later)
            if rng.random() < 0.5:
                patch['unsafe'] = True                     # marker on the top-level key: the merged dict is one level below
                put(later['doc'], (bk,), patch)
            else:
                holder = M([[bk, patch]], unsafe=True)     # marker on a wrapper document root
                d3 = {'doc': holder, 'safe': True, 'unsafe': True}
                ordered.append(d3)
        if payload_kind == 'taint' and cons_path:
            i4 = s.uid()
            put(safe1['doc'], (f'cp{j}',), SP('call', func=f'verif_targets.s{i4}', args=L([SP('xref', path=cons_path)])))
    # --- a safe function node whose target name (or a direct argument) is overridden by unsafe content: a plain string /
    #     mapping that is unsafe only by inheritance (marker on its document root, its source, an ancestor) or by its own tag
    raw_alias = None
    rename_after = None
    if focus == 'rename':
        i, i2 = s.uid(), s.uid()
        kind = rng.choice(['call', 'bind'])
        base = SP(kind, func=f'verif_targets.s{i}', args=M([['x', S(1)]]))
        what_ = rng.choice(['name', 'name', 'arg'])
        ov = S(f'verif_targets.u{i2}', style=rng.choice(['dq', 'plain'])) if what_ == 'name' else M([['x', S(f'TAINT{i2}', style='dq')]])
        depth = rng.choice([0, 0, 1, 2])
        chain = tuple(['rn'] + ['lvl%d' % d for d in range(depth)])
        put(safe1['doc'], chain, base)
        if rng.random() < 0.5:
            # ... and a later safe stage touches the same node again (an empty mapping, another argument): what the unsafe stage
            # left there stays unsafe
            rename_after = M([])
            put(rename_after, chain, rng.choice([M([]), M([['y', S(3)]]), M([['y', S(3)], ['z', S(4)]])]))
        if kind == 'bind':
            put(safe1['doc'], ('rn_use',), SP('eval', code='rn' + ''.join(f'["lvl{d}"]' for d in range(depth)) + '()'))
        if how in ('root', 'source', 'include') and udoc is not None:
            put(udoc['doc'], chain, ov)
        else:
            later = safe2 if safe2 is not None else s.doc()
            if later not in ordered:
                ordered.append(later)
            if how == 'tag' or depth == 0:
                ov['unsafe'] = True
                put(later['doc'], chain, ov)
            else:
                put(later['doc'], chain, ov)
                dict((k, v) for k, v in later['doc']['items'])['rn']['unsafe'] = True
    if focus == 'alias':
        # one node reachable under two paths (yaml anchor + alias): the unsafe value is first evaluated under one path and then
        # handed to a consumer through the other
        i, i2 = s.uid(), s.uid()
        mark_on = rng.choice(['leaf', 'container'])
        anchor = ('&anc !unsafe {v: "TAINT%d", w: 1}' % i) if mark_on == 'container' else ('&anc {v: !unsafe "TAINT%d", w: 1}' % i)
        ref = rng.choice(['aq', 'aq.v', 'ap', 'ap.v'])
        expr = ref.split('.')[0] + ''.join(f"['{c}']" for c in ref.split('.')[1:])
        cons = rng.choice([f'!call:verif_targets.s{i2} {{a: !xref {ref}}}', f'!call:verif_targets.s{i2} [!xref {ref}]', f'!eval "T.s{i2}({expr})"',
                           f'!call:verif_targets.s{i2} {{a: !eval "{expr}"}}'])
        lines = [f'ap: {anchor}', 'aq: *anc', f'ac: {cons}']
        if rng.random() < 0.5:
            lines = [lines[2], lines[0], lines[1]]
        raw_alias = '\n'.join(lines) + '\n'
    # --- lazily included files (!rec): a file named by unsafe content is unsafe, whatever the !rec node itself is
    rec_files = {}
    if focus == 'rec':
        i, i2, i3 = s.uid(), s.uid(), s.uid()
        rec_files['rec_s.yaml'] = f'ok: !call:verif_targets.s{i} {{x: 1}}\nplain: 1\n'
        payload = rng.choice([f'hook: !call:verif_targets.u{i2} {{x: 2}}\n', f'hook: !eval "T.u{i2}(2)"\n', f'hook: !import vtaint_{i2}.thing\n',
                              f'val: "TAINT{i2}"\nuse: !call:verif_targets.s{i3} [!xref val]\n'])
        rec_files['rec_u.yaml'] = payload
        via = rng.choice(['elem_tag', 'elem_tag', 'append', 'extend', 'index', 'whole', 'control'])
        if via == 'control':
            # everything safe: the lazily included file must simply work (shows that the scenario reaches the evaluation of !rec)
            put(safe1['doc'], ('r',), SP('raw', text='!rec [rec_s.yaml]'))
            focus = 'rec_control'
        elif via == 'elem_tag' or udoc is None and safe2 is None:
            put(safe1['doc'], ('r',), SP('raw', text='!rec [rec_s.yaml, !unsafe rec_u.yaml]' if rng.random() < 0.7 else '!rec [!unsafe rec_u.yaml]'))
        else:
            put(safe1['doc'], ('r',), SP('raw', text='!rec [rec_s.yaml]' if via != 'index' else '!rec [rec_s.yaml, rec_s.yaml]'))
            ov = {'append': SP('append', args=L([S('rec_u.yaml')])), 'extend': SP('extend', args=L([S('rec_u.yaml')])),
                  'index': M([[1, S('rec_u.yaml')]]), 'whole': SP('raw', text='!rec [rec_u.yaml]')}[via]
            if how in ('root', 'source') and udoc is not None:
                put(udoc['doc'], ('r',), ov)
            else:
                later = safe2 if safe2 is not None else s.doc()
                if later not in ordered:
                    ordered.append(later)
                if ov['t'] == 'sp':
                    later['doc']['unsafe'] = True        # no tag syntax on these nodes: the marker goes on the document
                    later['unsafe'] = True
                else:
                    ov['unsafe'] = True
                put(later['doc'], ('r',), ov)
    put(safe1['doc'], ('clean_top',), S(41))
    if rng.random() < 0.5:
        items = safe1['doc']['items']
        rng.shuffle(items)
    # --- assemble sources
    sources = []
    for d in ordered:
        if d['doc']['items'] or d is safe1:
            sources.append({'text': emit.emit(d['doc'], rng.choice(['flow', 'block'])), 'safe': d['safe']})
    if focus == 'rename' and rename_after is not None:
        sources.append({'text': emit.emit(rename_after, rng.choice(['flow', 'block'])), 'safe': True})
    if focus == 'override':
        # an explicit safe=True somewhere below an !unsafe node does not make what is below it safe again
        i = s.uid()
        dyn = rng.choice([f'!call:verif_targets.u{i} {{x: 1}}', f'!eval "T.u{i}(1)"', f'!import vtaint_{i}.thing', f'!bind:vtaint_{i}.f {{x: 1}}'])
        lvl = rng.choice(["a: !metadata{{'safe': True}}\n    b: " + dyn, "a: !metadata{{'safe': True}}\n    m:\n      b: " + dyn,
                          "m:\n    a: !metadata{{'safe': True, 'note': 1}}\n      - 0\n      - " + dyn])
        sources.append({'text': f'ov{i}: !unsafe\n  {lvl}\n', 'safe': True})
    if focus == 'tagged_fstr':
        # a merge-control tag written directly on a scalar that is itself resolved to a node (an implicit f-string)
        i = s.uid()
        tag = rng.choice(['!unsafe', "!metadata{{'safe': False}}", "!metadata{{'safe': False, 'note': 1}}"])
        sources.append({'text': f"fs{i}: {tag} f'v{{T.u{i}({i}).name}}'\n", 'safe': True})
    if focus == 'dyn_key':
        # mapping KEYS can be dynamic nodes too: below an !unsafe node they are as unsafe as the values
        i = s.uid()
        key = rng.choice([f'!eval "T.u{i}(1).name"', f"!fstr \"k{{T.u{i}(1).name}}\""])
        shape = rng.choice([f'dk{i}: !unsafe {{ {key}: 1, z: 2 }}\n', f'dk{i}: !unsafe\n  m:\n    {key}: 1\n', f'--- !unsafe\ndk{i}:\n  {key}: 1\n',
                            f"dk{i}: !metadata{{{{'safe': False}}}}\n  {key}: [1]\n"])
        sources.append({'text': shape, 'safe': True})
    if focus == 'placeholder':
        # a direct reference INTO a top-level mapping is evaluated first (the mapping is only half-evaluated then), next comes code
        # that reaches for an unsafe entry of that mapping by name, the mapping itself is written last
        i, i2 = s.uid(), s.uid()
        taint = f'"TAINT{i2}"'
        pa = rng.choice([f'pa{i}: {{k: 1, b: !unsafe {taint}}}', f'pa{i}: {{k: 1, sub: !unsafe {{b: {taint}}}}}', f'pa{i}: {{k: 1, b: !metadata{{{{\'safe\': False}}}} {taint}}}'])
        acc = "['sub']['b']" if 'sub:' in pa else "['b']"
        use = rng.choice([f'use{i}: !eval "T.s{i}(pa{i}{acc})"', f'use{i}: !eval "T.s{i}(ayns.cfg.pa{i}{acc})"', f"use{i}: !fstr \"v{{T.s{i}(pa{i}{acc}).name}}\"",
                          f'use{i}: !eval "x = pa{i}\\nT.s{i}(x{acc})"'])
        sources.append({'text': f'first{i}: !xref pa{i}.k\n{use}\n{pa}\n', 'safe': True})
    if focus == 'late_marker':
        # a later stage marks the container !unsafe: what the container already held is below an !unsafe node from then on
        i = s.uid()
        dyn = rng.choice([f'!call:verif_targets.u{i} {{x: 1}}', f'!eval "T.u{i}(1)"', f'!import vtaint_{i}.thing'])
        deep = rng.random() < 0.5
        sources.insert(0, {'text': (f'lm: {{x: {dyn}, z: 1}}\n' if not deep else f'lm: {{s: {{x: {dyn}}}, z: 1}}\n'), 'safe': True})
        late = rng.choice(['lm: !unsafe {y: 2}\n', '--- !unsafe\nlq: 1\n', "lm: !metadata{{'safe': False, 'priority': -1}} {y: 2}\n"])
        sources.append({'text': late, 'safe': True})
    if raw_alias:
        sources.append({'text': raw_alias, 'safe': True})
    files = dict(rec_files)
    if how == 'include' and udoc['doc']['items']:
        files['inc_unsafe.yaml'] = emit.emit(udoc['doc'], 'flow')
        inc_doc = M([['pad0', S(0)]])
        # the include happens from unsafe content: an !include below an !unsafe mapping, merged at top level via a second document
        sources.insert(1, {'text': '--- !unsafe\nincl_holder: 1\n', 'safe': True})
        sources.insert(2, {'text': '!include inc_unsafe.yaml\n', 'safe': False})
    return {'sources': sources, 'files': files, 'how': how, 'focus': focus}


# ------------------------------------------------------------------ observation
def scan(v, out, depth=0):
    import verif_targets
    if depth > 8:
        return
    if isinstance(v, str):
        if 'TAINT' in v:
            out.append(v)
    elif isinstance(v, dict):
        for k, x in v.items():
            scan(k, out, depth + 1)
            scan(x, out, depth + 1)
    elif isinstance(v, (list, tuple, set)):
        for x in v:
            scan(x, out, depth + 1)
    elif isinstance(v, verif_targets.Result):
        scan(v.args, out, depth + 1)
        scan(v.kwargs, out, depth + 1)
    elif hasattr(v, 'args') and hasattr(v, 'keywords'):
        scan(list(v.args), out, depth + 1)
        scan(dict(v.keywords), out, depth + 1)


def survivors(tree):
    """unsafe-origin dynamic nodes still present in the merged tree (origin is readable from names)"""
    from awesomeyaml.nodes.function import FunctionNode
    from awesomeyaml.nodes.eval import EvalNode
    out = []
    nodes = list(tree.ayns.nodes_with_paths(include_self=False))
    for p, n in nodes:
        if isinstance(n, FunctionNode):
            f = str(n._func)
            if f.startswith('verif_targets.u') or f.startswith('vtaint_'):
                out.append((str(p), f))
        elif isinstance(n, EvalNode):
            if 'T.u' in str(n):
                out.append((str(p), str(n)))
        elif type(n).__name__ == 'ImportNode' and str(n).startswith('vtaint_'):
            out.append((str(p), str(n)))
    return out


def run(case):
    import verif_targets
    from awesomeyaml.builder import Builder
    from awesomeyaml.config import Config
    from awesomeyaml.eval_context import EvalContext
    import awesomeyaml.errors as E
    td = None
    cwd = os.getcwd()
    if case['files']:
        td = tempfile.mkdtemp(prefix='verif_c07_')
        for fn, txt in case['files'].items():
            with open(os.path.join(td, fn), 'w') as f:
                f.write(txt)
        os.chdir(td)
    try:
        verif_targets.reset()
        del IMPORTS[:]
        for m in [m for m in sys.modules if m.startswith('vtaint_') or m.startswith('vsafe_')]:
            del sys.modules[m]
        b = Builder()
        texts = [s_['text'] for s_ in case['sources']]
        flags = [s_['safe'] for s_ in case['sources']]
        what = f'sources={list(zip(texts, flags))!r} files={case["files"]!r}'
        feats = ['how_' + case['how'], 'focus_' + case.get('focus', '?')]
        mo = lib.outcome(lambda: [b.add_source(t, raw_yaml=True, safe=sf) for t, sf in zip(texts, flags)] and b.build())
        if mo[0] == 'err':
            return {'status': 'ok', 'nontrivial': False, 'feats': feats + ['merge_fails_' + lib.err_kind(mo[1])]}
        tree = mo[1]
        surv = survivors(tree) if tree is not None else []
        # two public evaluation routes: the evaluation context applied to the merged tree itself, and Config (which deep-copies first)
        got0 = lib.outcome(lambda: EvalContext(eval_symbols={'T': verif_targets}).evaluate(tree)) if tree else ('ok', {})
        log0 = list(verif_targets.LOG)
        imports0 = list(IMPORTS)
        verif_targets.reset()
        del IMPORTS[:]
        for m in [m for m in sys.modules if m.startswith('vtaint_') or m.startswith('vsafe_')]:
            del sys.modules[m]
        got = lib.outcome(lambda: Config(tree, eval_ctx=EvalContext(eval_symbols={'T': verif_targets})))
    finally:
        os.chdir(cwd)
        if td:
            shutil.rmtree(td, ignore_errors=True)
    vio = []
    log = list(verif_targets.LOG) + log0
    IMPORTS.extend(imports0)
    _counts['imports_seen'] += len(IMPORTS)
    if got0[0] == 'ok' and got[0] != 'ok' or got0[0] != 'ok' and got[0] == 'ok':
        feats.append('routes_disagree')
    if got0[0] == 'ok' and surv:
        vio.append({'mech': 'unsafe-node-not-refused', 'what': f'EvalContext.evaluate(merged tree) succeeded although unsafe dynamic node(s) {surv} survive merging; {what}'})
    if got0[0] == 'ok' and isinstance(got0[1], dict):
        for k, v in got0[1].items():
            if isinstance(k, str) and k.startswith('c') and isinstance(v, str) and 'TAINT' in v:
                vio.append({'mech': 'tainted-value-resolved-by-code', 'what': f'[EvalContext.evaluate] {k} = {v!r} was computed by evaluated code from unsafe data; {what}'})
    for name, a, kw in log:
        if name.startswith('u'):
            vio.append({'mech': 'unsafe-target-called', 'what': f'target {name} (written by unsafe content) was called with {a!r} {kw!r}; {what}'})
        else:
            _counts['safe_target_calls'] += 1
        seen = []
        scan([a, kw], seen)
        if seen:
            vio.append({'mech': 'tainted-value-reached-call', 'what': f'safe target {name} received {seen!r}, written by unsafe content; {what}'})
    for m in IMPORTS:
        if m.startswith('vtaint_'):
            vio.append({'mech': 'unsafe-module-imported', 'what': f'module {m} was imported on behalf of unsafe content; {what}'})
    if got[0] == 'ok':
        feats.append('built')
        if case.get('focus') == 'rec_control' and any(n_.startswith('s') for n_, _, _ in log) and isinstance(got[1].get('r'), dict) and 'ok' in got[1]['r']:
            feats.append('rec_control_evaluated')
        if surv:
            vio.append({'mech': 'unsafe-node-not-refused', 'what': f'unsafe dynamic node(s) {surv} survive merging but the build succeeded; {what}'})
        # f-strings / evaluated code that resolved tainted names: their values carry the marker
        for k, v in got[1].items():
            if isinstance(k, str) and k.startswith('c') and isinstance(v, str) and 'TAINT' in v:
                vio.append({'mech': 'tainted-value-resolved-by-code', 'what': f'{k} = {v!r} was computed by evaluated code from unsafe data; {what}'})
    else:
        if util.chain_has(got[1], E.UnsafeError):
            _counts['unsafe_errors_seen'] += 1
            feats.append('refused_UnsafeError')
        else:
            feats.append('fails_' + lib.err_kind(got[1]))
            if surv and not util.chain_has(got[1], E.UnsafeError):
                feats.append('survivor_but_other_error')
    if surv:
        feats.append('unsafe_survivor')
    nt = bool(surv) or 'TAINT' in ''.join(texts)
    res = {'status': 'violation' if vio else 'ok', 'nontrivial': nt, 'feats': feats, 'sig': util.sig([texts, flags])}
    if vio:
        res['violations'] = vio[:3]
    return res
