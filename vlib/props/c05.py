"""C05 - merging is local.

Pure metamorphic monitor (no model): the same merge sequence is built as
written, wrapped under an extra key chain, with extra sibling content, and with
a consistent renaming of keys; the results must be images of each other.
"""
import copy

from .. import gen, emit, lib, util, view
from ..emit import M

ID = 'C05'
LEVEL = 'exploration'
TECHNIQUE = 'runtime monitoring: metamorphic relations (wrap under a key chain / add sibling content / rename keys) over real builds, comparing typed data, error class and per-node priority'
LEVEL_TEXT = ('Held on the generated sequences only: each 2-5 stage sequence over the full merge vocabulary (priorities, !del/!merge/!clear, '
              '!new/!notnew, !append/!extend/!prev, value-less !del, metadata) is built 4 ways and the results compared. No reference model is '
              'involved, so no domain restriction is needed. Exploration fits an unbounded input space with a cheap exact relation.')
LEVEL_NOTE = ('Trusted: the harness transformations (wrap, sibling, rename) in c05.py. A root that ends up empty is compared modulo the '
              'remove-this-key idiom (the root has no key that could be removed).')
RULE = ('seeded merge sequences x {wrap under 1-3 keys (sometimes equal to inner keys), extra sibling keys, key-name permutation}; non-trivial = '
        'at least two stages write a common top-level key and at least one merge-control tag or structural node is present; distinct = hash of texts')
ASSUMPTIONS = ['an emptied root is exempt from the remove-this-key comparison (there is no key to remove at the root)']
TIERS = {'quick': {'cases': 1500, 'budget': 60}, 'thorough': {'cases': 60000, 'budget': 900}}

POOL = ['a', 'b', 'c', 'd', '_u', 'k1', 'stages']          # ('stages': named like an attribute of the builder's own stream nodes - a key like any other)
HOSTILE = ['exp-1', 'a.b', 'x y', 'b[0]']          # keys that are not identifier-like (paths through them must not be re-parsed)


def _map_paths(doc, fn):
    d = copy.deepcopy(doc)
    for _, n in emit.walk(d):
        if n['t'] == 'sp' and n['kind'] == 'prev':
            n['path'] = fn(n['path'])
    return d


def wrap(doc, prefix):
    pre = gen.path_str(tuple(prefix))
    d = _map_paths(doc, lambda p: pre + ('' if p.startswith('[') else '.') + p)
    for k in reversed(prefix):
        d = M([[k, d]])
    return d


def rename(doc, perm):
    d = copy.deepcopy(doc)
    for _, n in emit.walk(d):
        if n['t'] == 'map':
            for it in n['items']:
                if isinstance(it[0], str) and it[0] in perm:
                    it[0] = perm[it[0]]
        elif n['t'] == 'sp' and n['kind'] == 'prev':
            import re
            n['path'] = re.sub(r'[A-Za-z_][A-Za-z0-9_]*', lambda m: perm.get(m.group(0), m.group(0)), n['path'])
    return d


def gen_case(rng, tier):
    n = rng.choice([2, 2, 3, 3, 4, 5])
    docs = gen.rand_merge_sequence(rng, n, depth=rng.choice([2, 3, 4]), flags_p=rng.choice([0.15, 0.3, 0.5]),
                                   specials_p=rng.choice([0, 0.15, 0.3]), pool_s=POOL + (HOSTILE if rng.random() < 0.4 else []), hostile=False,
                                   marker=gen.Marker(), kinds=('s', 's', 's', 's', 'i'))
    if rng.random() < 0.3 and len(docs) >= 2:
        # premerge operators aimed two (or three) levels below a top-level key that is or is not identifier-like
        from ..emit import SP, L, S
        hk = rng.choice(HOSTILE + ['plain'])
        depth2 = rng.random() < 0.7
        old = L([S(1), S(2)])
        op = SP(rng.choice(['append', 'extend']), args=L([S(3)]))
        docs[0]['items'].append([hk, M([['steps', old]]) if depth2 else M([['sub', M([['steps', old]])]])])
        docs[1]['items'].append([hk, M([['steps', op]]) if depth2 else M([['sub', M([['steps', op]])]])])
        if hk == 'a.b' and rng.random() < 0.5 and 'a' not in [k for k, _ in docs[0]['items']]:
            docs[0]['items'].append(['a', M([['b', M([['steps', L([S(77)])]])]])])
    focus = None
    if rng.random() < 0.25:
        # low-priority defaults in a container, a later stage restating one of them at the same low priority: the latest of
        # equals wins whatever was written next to it in between (see deep_sibling)
        wk = rng.choice(['wk', 'wk', 'k1'])
        if wk not in [k for d in docs for k, _ in d['items']]:
            inner = M([['a', emit.S(1)], ['b', emit.S(2)]])
            holder = inner if rng.random() < 0.5 else M([['sub', inner]])
            holder['prio'] = -1
            docs[0]['items'].append([wk, holder])
            late = M([['a', emit.S(7, prio=-1)]])
            late = late if holder is inner else M([['sub', late]])
            if len(docs) < 2 or docs[-1].get('new') is False or docs[-1].get('del'):
                docs.append(M([]))
            docs[-1]['items'].append([wk, late])
            focus = [wk] if holder is inner else [wk, 'sub']
    unmentioned = None
    if rng.random() < 0.2 and not any(emit.has_flags(d) for d in docs) and 'um' not in [k for d in docs for k, _ in d['items']]:
        # "paths that the newer document does not mention ... come out unchanged": a list, and a later mapping which removes /
        # rewrites some of its positions (written in any order, some counted from the end) - all other elements stay, in order
        n_el = rng.choice([3, 4, 5, 6])
        orig = [f'U{j}' for j in range(n_el)]
        touched = rng.sample(range(n_el), rng.choice([1, 2, 2, 3]))
        removed = [j for j in touched if rng.random() < 0.75]
        rewritten = {j: f'NEW{j}' for j in touched if j not in removed}
        items = [[(j - n_el if rng.random() < 0.3 else j), (emit.S(None, vdel=True) if j in removed else emit.S(rewritten[j]))] for j in touched]
        rng.shuffle(items)
        nest = rng.random() < 0.5
        lst = emit.L([emit.S(x) for x in orig])
        docs[0]['items'].append(['um', M([['lst', lst]]) if nest else lst])
        if len(docs) < 2:
            docs.append(M([]))
        late = M(items)
        docs[rng.randrange(1, len(docs))]['items'].append(['um', M([['lst', late]]) if nest else late])
        unmentioned = {'path': ['um', 'lst'] if nest else ['um'], 'expected': [rewritten.get(j, orig[j]) for j in range(n_el) if j not in removed]}
    if unmentioned is None and rng.random() < 0.12 and not any(emit.has_flags(d) for d in docs) and 'um2' not in [k for d in docs for k, _ in d['items']]:
        # the same for a list of mappings below an *inherited* !merge (tag on an ancestor mapping or on the document): elements
        # combine index-wise and key-wise, what the newer elements do not mention stays
        olds = [M([['n', emit.S(j)], ['act', emit.S(f'A{j}')]]) for j in range(rng.choice([2, 3]))]
        news = [M([['n', emit.S(80 + j)]]) for j in range(rng.randrange(1, len(olds) + 1))]
        deep = rng.random() < 0.5
        docs[0]['items'].append(['um2', M([['net', M([['layers', emit.L(olds)]])]]) if deep else M([['layers', emit.L(olds)]])])
        late = M([['net', M([['layers', emit.L(news)]])]]) if deep else M([['layers', emit.L(news)]])
        how = rng.choice(['on_um2', 'on_um2', 'on_net'] if deep else ['on_um2'])
        if how == 'on_um2':
            late['del'] = False
        else:
            late['items'][0][1]['del'] = False
        if len(docs) < 2:
            docs.append(M([]))
        docs[rng.randrange(1, len(docs))]['items'].append(['um2', late])
        unmentioned = {'path': ['um2', 'net', 'layers'] if deep else ['um2', 'layers'],
                       'expected': [{'n': 80 + j, 'act': f'A{j}'} if j < len(news) else {'n': j, 'act': f'A{j}'} for j in range(len(olds))]}
    coincide = None
    if rng.random() < 0.2:
        # a key of a deleting node that merely has the same *name* as a key somewhere below an older sibling container: renaming it
        # (here: to a name used nowhere) must change nothing but that name
        nm = rng.choice(POOL)
        p_old, p_new = rng.choice([(1, -1), (1, 1), (0, -1), (0, 1), (-1, 1)])
        hold = M([[nm, emit.S(1, **({'prio': p_old} if p_old else {}))], ['o', emit.S(2)]])
        if rng.random() < 0.4:
            hold = M([['deeper', hold]])
        older = M([['hold', hold], ['keep', emit.S(3, prio=1)]])
        def newer(name):
            return M([[name, emit.S(9, **({'prio': p_new} if p_new else {}))], ['q', emit.S(4)]], **{'del': True})
        docs[0]['items'] = [it for it in docs[0]['items'] if it[0] != 'dz'] + [['dz', older]]
        if len(docs) < 2:
            docs.append(M([]))
        for d in docs[1:]:
            d['items'] = [it for it in d['items'] if it[0] != 'dz']
        base_last = copy.deepcopy(docs[-1])
        docs[-1]['items'].append(['dz', newer(nm)])
        alt_last = base_last
        alt_last['items'].append(['dz', newer('fresh_k')])
        coincide = {'name': nm, 'alt_last': alt_last}
    prefix = [rng.choice(POOL + ['w']) for _ in range(rng.choice([1, 1, 2, 3]))]
    perm_keys = POOL[:]
    rng.shuffle(perm_keys)
    perm = dict(zip(POOL, perm_keys))
    # sibling content: new top-level keys in every stage where creating keys is allowed.  Half of the time the new keys are
    # named like keys that occur *deeper* in the documents (never at the top level): what a path is called elsewhere is irrelevant
    tops = {k for d in docs for k, _ in d['items']}
    nested = sorted({k for d in docs for p_, n_ in emit.walk(d) if n_['t'] == 'map' and p_ for k, _ in n_['items'] if isinstance(k, str) and k not in tops and gen.path_str((k,)) == k})
    sib_names = ['zz', 'zq']
    if rng.random() < 0.5 and nested:
        sib_names = [rng.choice(nested), 'zq'] if len(nested) == 1 else rng.sample(nested, 2)
    sib = []
    for i, d in enumerate(docs):
        d2 = copy.deepcopy(d)
        if i == 0 or (rng.random() < 0.6 and d.get('new') is not False):
            extra = gen.rand_node(rng, 2, pool_s=POOL, hostile=False, no_seq=True, kinds=('s',))
            extra = gen.place_flags(rng, extra, p=0.3, vocab=('prio', 'del', 'md'))
            d2['items'].append([sib_names[0], extra])
            if rng.random() < 0.6:
                # a sibling *in front of* the original keys, often protected by a priority of its own
                zq = gen.rand_node(rng, 1, pool_s=POOL, hostile=False, no_seq=True, kinds=('s',))
                if rng.random() < 0.6:
                    zq['prio'] = rng.choice([1, 1, -1])
                d2['items'].insert(rng.randrange(0, max(1, len(d2['items']) // 2 + 1)), [sib_names[1], zq])
        sib.append(d2)
    style = rng.choice(['flow', 'block'])
    return {'base': [emit.emit(d, style) for d in docs],
            'wrapped': [emit.emit(wrap(d, prefix), style) for d in docs], 'prefix': prefix,
            'sibling': [emit.emit(d, style) for d in sib], 'sib_names': sib_names,
            'coincide': ({'name': coincide['name'], 'texts': [emit.emit(d, style) for d in docs[:-1]] + [emit.emit(coincide['alt_last'], style)]} if coincide else None),
            'renamed': [emit.emit(rename(d, perm), style) for d in docs], 'perm': perm, 'focus': focus, 'unmentioned': unmentioned,
            'ntags': sum(1 for d in docs for _, x in emit.walk(d) if emit.has_flags(x) or x['t'] == 'sp')}


def observe(texts):
    o = lib.outcome(lambda: lib.merged(texts))
    if o[0] == 'err':
        return ('err', lib.err_kind(o[1]), str(o[1])[:300]), None
    tree = o[1]
    tv = view.tree_view(tree, flags=('prio',)) if tree is not None else None
    from awesomeyaml.config import Config
    e = lib.outcome(lambda: Config(tree))
    if e[0] == 'err':
        return ('err', lib.err_kind(e[1]), str(e[1])[:300]), tv
    return ('ok', _plain(e[1])), tv


def _root_emptied(texts):
    """was the root empty after some proper prefix of the sequence?  (then the wrapped form may have
    removed and re-created the innermost key, which legitimately resets its flags)"""
    for i in range(1, len(texts)):
        o = lib.outcome(lambda: lib.merged(texts[:i]))
        if o[0] == 'ok' and o[1] is not None and not o[1]:
            return True
    return False


def _plain(v):
    if isinstance(v, dict):
        return {k: _plain(x) for k, x in v.items()}
    if isinstance(v, list):
        return [_plain(x) for x in v]
    return v


def _rename_plain(v, perm):
    if isinstance(v, dict):
        return {(perm.get(k, k) if isinstance(k, str) else k): _rename_plain(x, perm) for k, x in v.items()}
    if isinstance(v, list):
        return [_rename_plain(x, perm) for x in v]
    return v


def deep_sibling(case, base):
    """an extra, untagged document inserted between two stages that only adds one new key inside a mapping which exists at that point:
    everything else must come out as it did (the new key removed again from the result).  Skipped when a later stage has a lower-than-
    standard priority, a non-mapping or an operator on the way to that mapping (then the priority the extra writer gives the containers
    on the way legitimately decides a type conflict)."""
    import json
    import random as _r
    from awesomeyaml.nodes.dict import ConfigDict
    from awesomeyaml.builder import Builder
    texts = case['base']
    if len(texts) < 2 or base[0] != 'ok':
        return None
    rng = _r.Random(util.sig(texts))
    i = rng.randrange(1, len(texts))
    pre = lib.outcome(lambda: lib.merged(texts[:i]))
    if pre[0] != 'ok' or pre[1] is None:
        return None
    cands = []
    for p, n in pre[1].ayns.nodes_with_paths(include_self=False):
        comps = [view.key_native(c) for c in p]
        if type(n) is not ConfigDict or not all(isinstance(c, str) for c in comps):
            continue
        node, plain = pre[1], True
        for c in comps:
            node = node.ayns.get_child(c)
            # (a container with an explicit !del / !merge of its own takes the - unset - flag of the newer container merged into it:
            # the extra document would legitimately change how that container behaves when a later stage moves it)
            plain = plain and type(node) is ConfigDict and node._delete is None
        if plain:
            cands.append(comps)
    if not cands:
        return None
    M = rng.choice(sorted(cands))
    if case.get('focus') and case['focus'] in cands and rng.random() < 0.8:
        M = case['focus']
    for t in texts[i:]:
        b = Builder()
        try:
            b.add_source(t, raw_yaml=True)
        except Exception:
            return None
        for st in b.stages:
            # a later !prev which moves that mapping (or something around / inside it) elsewhere: an emptied mapping merges onto anything,
            # one with a key in it does not (a list wants positions, a !notnew destination no new paths)
            from awesomeyaml.nodes.prev import PrevNode
            from .. import model as _model
            for _, pn in st.ayns.nodes_with_paths():
                if isinstance(pn, PrevNode):
                    tgt = [str(c) for c in _model.parse_path(str(pn.ayns.value))]
                    k = min(len(tgt), len(M))
                    if tgt[:k] == [str(c) for c in M[:k]]:
                        return None
            node = st
            for c in [None] + M:
                if c is not None:
                    node = node.ayns.get_child(c) if isinstance(node, dict) and hasattr(node, 'ayns') else None
                    if node is None:
                        break
                if type(node) is not ConfigDict or (node.ayns.priority or 0) < 0:
                    return None
    ins = json.dumps('zz_deep') + ': 1'
    for c in reversed(M):
        ins = json.dumps(c) + ': {' + ins + '}'
    ins = '{' + ins + '}\n'
    got, _ = observe(texts[:i] + [ins] + texts[i:])
    if got[0] != 'ok':
        return {'mech': 'deep-sibling-changes-outcome', 'what': f'base builds {util.short(base[1], 200)} but with the extra document {ins!r} inserted at position {i}: {util.short(got, 300)}; texts={texts!r}'}
    def strip(v):
        # the new key goes wherever later stages move the mapping it was written into (!prev): it is removed wherever it ended up
        if isinstance(v, dict):
            return {k: strip(x) for k, x in v.items() if k != 'zz_deep'}
        if isinstance(v, list):
            return [strip(x) for x in v]
        return v
    res = strip(got[1])
    if util.typed(res) != util.typed(base[1]):
        return {'mech': 'deep-sibling-changes-result', 'what': f'base = {util.short(base[1], 300)}; with the extra document {ins!r} at position {i} (new key removed again) = {util.short(res, 300)}; texts={texts!r}'}
    return 'ok'


def run(case):
    base, btv = observe(case['base'])
    vio = []
    feats = ['stages=%d' % len(case['base']), 'base_' + base[0]]
    # --- wrap
    w, wtv = observe(case['wrapped'])
    pre = case['prefix']
    if base[0] == 'err':
        feats.append('err_' + base[1])
        if w[0] != 'err' or w[1] != base[1]:
            vio.append({'mech': 'wrap-changes-outcome', 'what': f'unwrapped build raises {base[1]} ({base[2]!r}) but wrapped under {pre} gives {util.short(w, 300)}'})
    else:
        exp = base[1]
        for k in reversed(pre):
            exp = {k: exp}
        ok = w[0] == 'ok' and util.typed(w[1]) == util.typed(exp)
        if not ok and w[0] == 'ok' and not base[1]:
            # emptied root: the wrapped form may legitimately have removed the innermost key (remove-this-key idiom)
            alt = {}
            for k in reversed(pre[:-1]):
                alt = {k: alt}
            cur, good = w[1], True
            for k in pre[:-1]:
                if isinstance(cur, dict) and set(cur) == {k}:
                    cur = cur[k]
                else:
                    good = False
                    break
            ok = good and cur in ({}, {pre[-1]: {}})
            feats.append('empty_root')
        if not ok:
            vio.append({'mech': 'wrap-changes-result', 'what': f'unwrapped = {util.short(base[1], 300)}; wrapped under {pre} = {util.short(w, 400)}; texts={case["base"]!r}'})
        elif btv is not None and wtv is not None and base[1] and not _root_emptied(case['base']):
            sv = view.sub_view(wtv, pre)
            if sv != btv:
                vio.append({'mech': 'wrap-changes-priority-view', 'what': f'same data but different node kinds/priorities below {pre}: texts={case["base"]!r}'})
    # --- sibling content
    s, _ = observe(case['sibling'])
    if base[0] == 'err':
        if s[0] != 'err' or s[1] != base[1]:
            vio.append({'mech': 'sibling-changes-outcome', 'what': f'base raises {base[1]} but with extra sibling keys: {util.short(s, 300)}'})
    else:
        if s[0] != 'ok':
            vio.append({'mech': 'sibling-changes-outcome', 'what': f'base builds {util.short(base[1], 200)} but with extra sibling keys zz/zq: {util.short(s, 300)}; texts={case["sibling"]!r}'})
        else:
            got = {k: v for k, v in s[1].items() if k not in tuple(case.get('sib_names') or ('zz', 'zq'))}
            if util.typed(got) != util.typed(base[1]):
                vio.append({'mech': 'sibling-changes-result', 'what': f'base = {util.short(base[1], 300)}; with siblings (restricted to the original keys) = {util.short(got, 300)}; texts={case["sibling"]!r}'})
    # --- positions of a list which the newer mapping does not mention
    if case.get('unmentioned'):
        feats.append('unmentioned_list_positions_checked')
        um = case['unmentioned']
        cur = base[1] if base[0] == 'ok' else None
        for c in um['path']:
            cur = cur.get(c) if isinstance(cur, dict) else None
        if base[0] == 'ok' and cur != um['expected']:
            vio.append({'mech': 'unmentioned-list-positions-changed', 'what': f'the list at {um["path"]} should come out as {um["expected"]} (only the positions written by the later mapping removed / rewritten) but the build gives {util.short(cur if base[0] == "ok" else base, 300)}; texts={case["base"]!r}'})
    # --- name coincidence
    if case.get('coincide') and base[0] == 'ok':
        c, _ = observe(case['coincide']['texts'])
        feats.append('name_coincidence_checked')
        nm = case['coincide']['name']
        ok = c[0] == 'ok' and isinstance(c[1].get('dz'), dict) and isinstance(base[1].get('dz'), dict)
        if ok:
            alt = copy.deepcopy(c[1])
            if 'fresh_k' in alt['dz']:
                alt['dz'] = {(nm if k == 'fresh_k' else k): v for k, v in alt['dz'].items()}
            ok = util.typed(alt) == util.typed(base[1])
        if not ok:
            vio.append({'mech': 'key-name-elsewhere-changes-result', 'what': f'base = {util.short(base[1], 300)}; with the key dz.{nm} of the deleting node called fresh_k instead = {util.short(c, 300)}; texts={case["base"]!r}'})
    # --- a sibling key added *inside* an existing mapping by an extra document in the middle of the sequence
    ds = deep_sibling(case, base)
    if ds:
        feats.append('deep_sibling_checked')
        if ds != 'ok':
            vio.append(ds)
    # --- renaming
    r, _ = observe(case['renamed'])
    if base[0] == 'err':
        if r[0] != 'err' or r[1] != base[1]:
            vio.append({'mech': 'rename-changes-outcome', 'what': f'base raises {base[1]} but renamed by {case["perm"]}: {util.short(r, 300)}'})
    else:
        exp = _rename_plain(base[1], case['perm'])
        if r[0] != 'ok' or util.typed(r[1]) != util.typed(exp):
            vio.append({'mech': 'rename-changes-result', 'what': f'base = {util.short(base[1], 300)}; renamed by {case["perm"]} = {util.short(r, 300)}; texts={case["base"]!r}'})
    import yaml as pyyaml
    common = False
    try:
        tops = [set(k for k in (pyyaml.compose(t).value and [x[0].value for x in pyyaml.compose(t).value])) for t in case['base']]
        common = any(tops[i] & tops[j] for i in range(len(tops)) for j in range(i))
    except Exception:
        common = True
    res = {'status': 'violation' if vio else 'ok', 'nontrivial': bool(common and case['ntags'] > 0), 'feats': feats, 'evals': 4,
           'sig': util.sig(case['base'])}
    if vio:
        res['violations'] = vio
    return res
