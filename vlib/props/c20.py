"""C20 - concurrent builds in different threads do not influence each other.

Controlled-scheduler monitor (vlib/sched.py): 2-4 threads, each with its own
Builder over its own files (different safe flags, nested includes, !path nodes,
failing inputs), run under random line-granularity schedules, under depth-1 /
depth-2 preemption sweeps, and free-running with a tiny switch interval.  Each
thread's outcome - per node: path, value, source_file, safety; or the exception:
class, text, cause chain - must equal the outcome of the same job run alone.
"""
import os
import sys
import copy
import random
import shutil
import tempfile
import threading

from .. import gen, emit, lib, util, sched, env
from ..emit import M, L, S, SP

ID = 'C20'
LEVEL = 'exploration'
TECHNIQUE = 'runtime monitoring: controlled thread scheduler on sys.monitoring LINE events (random schedules + depth-1/2 preemption sweeps) plus free-running stress; per-thread outcome compared with the solo run'
LEVEL_TEXT = ('Held on the explored schedules only: per scenario (2-4 builder threads over disjoint temp files with different safe flags, nested includes, !path nodes and failing inputs - '
              'syntax error, missing include, MergeError, !required) several random schedules (switch probability 0.02-0.2 per line event), single and double preemption points swept over '
              'the whole run, and free-running repetitions with a 1e-6 s switch interval. Evidence lists events seen, switches, distinct schedules and distinct (file, line) preemption sites, '
              'including those inside the default_filename / default_safe_flag windows.')
LEVEL_NOTE = ('Trusted: the token-passing scheduler (one runnable workload thread at a time). Limits: preemption inside a single bytecode line and GIL-free builds are not explored; '
              '"every interleaving" is sampled, races needing >=3 precisely placed preemptions may be missed.')
RULE = ('seeded scenario x schedules; non-trivial = a schedule with at least one switch while two threads were alive; distinct = hash of (scenario, schedule trace)')
ASSUMPTIONS = ['all lazily imported awesomeyaml modules are imported before the threads start (no thread is descheduled holding the import lock)']
TIERS = {'quick': {'cases': 64, 'budget': 80, 'max_respawns': 0}, 'thorough': {'cases': 2400, 'budget': 900}}
MIN_COUNTERS = {'switches': 1, 'line_events': 1}
CASE_TIMEOUT = 300
_counts = {'switches': 0, 'line_events': 0, 'schedules_run': 0, 'sites_in_thread_local_windows': 0, 'free_running_runs': 0}
_sites = set()
_hashes = set()
_inst = [None]


def init(tier):
    import awesomeyaml
    import yaml
    _inst[0] = sched.Instrument([os.path.dirname(awesomeyaml.__file__), os.path.dirname(yaml.__file__)])
    _inst[0].install()
    return None


def finish():
    c = dict(_counts)
    c['preemption_sites_summed_over_shards'] = len(_sites)
    c['distinct_schedules_summed_over_shards'] = len(_hashes)
    return c


FAILS = ['none', 'none', 'none', 'syntax', 'missing_include', 'merge_error', 'required']


def gen_case(rng, tier):
    n = rng.choice([2, 2, 3, 4])
    jobs = []
    shared = None
    if rng.random() < 0.5:
        shared = {'common.yaml': 'cm: 1\nfrom_leaf: !include leaf.yaml\n', 'leaf.yaml': 'lf: [1, 2]\ntl: !include deeper/tail.yaml\n', 'deeper/tail.yaml': 'tail: true\n'}
    for i in range(n):
        mk = gen.Marker(f'J{i}_')
        fail = rng.choice(FAILS)
        doc = gen.rand_doc(rng, 2, kinds=('s',), pool_s=['a', 'b', 'c', 'd'], hostile=False, marker=mk)
        inc = gen.rand_doc(rng, 2, kinds=('s',), pool_s=['a', 'b', 'e', 'f'], hostile=False, marker=mk)
        inc2 = gen.rand_doc(rng, 1, kinds=('s',), pool_s=['g', 'h'], hostile=False, marker=mk)
        doc['items'].append(['where', SP('path', ref=rng.choice(['parent', 'file', 'parent(1)']), parts=['x'])])
        inc['items'].append(['where_inc', SP('path', ref='parent', parts=['y'])])
        if rng.random() < 0.5:
            doc['items'].append(['calc', SP('eval', code=f'{i} + 40')])
        main = emit.emit(doc, 'block')
        files = {'main.yaml': main + '---\n!include inc.yaml\n', 'inc.yaml': emit.emit(inc, 'block') + 'nested: !include sub/inc2.yaml\n',
                 'sub/inc2.yaml': emit.emit(inc2, 'block')}
        if fail == 'syntax':
            files['inc.yaml'] = 'a: [1, 2\nb: }\n'
        elif fail == 'missing_include':
            files['inc.yaml'] = emit.emit(inc, 'block') + 'nested: !include sub/not_there.yaml\n'
        elif fail == 'merge_error':
            files['main.yaml'] = main + '--- !notnew\nbrand_new_key: 1\n'
        elif fail == 'required':
            files['main.yaml'] = main + '---\nneeded: !required\n'
        if shared and fail == 'none':
            # every job also pulls in the same files (which include further files themselves)
            files['main.yaml'] += '---\n!include ../shared/common.yaml\n' if rng.random() < 0.7 else '---\nsh: !include [../shared/leaf.yaml, ../shared/common.yaml]\n'
        jobs.append({'files': files, 'safe': rng.random() < 0.5, 'fail': fail, 'evaluate': rng.random() < 0.6})
    scheds = []
    for _ in range(2):
        scheds.append({'policy': 'random', 'seed': rng.randrange(1 << 30), 'p': rng.choice([0.02, 0.05, 0.1, 0.2])})
    for _ in range(3):
        scheds.append({'policy': 'sweep', 'frac': [rng.random()]})
    scheds.append({'policy': 'sweep', 'frac': [rng.random(), rng.random()]})
    scheds.append({'policy': 'sweep', 'window': True})       # aimed at the thread-local windows (parsing phase)
    # lock-step through one of the functions where builds touch things outside their own trees (files, look-up, per-thread defaults):
    # the threads take turns at every line of it
    if rng.random() < 0.12:
        scheds.append({'policy': 'coldstart', 'how': rng.choice(['stepfn', 'stepfn', 'random']), 'seed': rng.randrange(1000)})
    scheds.append({'policy': 'stepfn', 'fnames': rng.choice([['add_source'], ['add_source'], ['add_source', 'on_preprocess_impl'], ['parse', 'add_source'],
                                                            ['get_lookup_dirs', 'on_preprocess_impl'], ['preprocess', 'flatten'], ['add_source', 'add_multiple_sources', 'build']])})
    if rng.random() < 0.3:
        scheds.append({'policy': 'free', 'reps': 3})
    return {'jobs': jobs, 'scheds': scheds, 'shared': shared}


def dump_tree(t):
    out = []
    for p, n in t.ayns.nodes_with_paths():
        try:
            v = n.ayns.native_value if n.ayns.is_leaf and not isinstance(n, dict) else type(n).__name__
        except Exception:
            v = type(n).__name__
        out.append((str(p), repr(v), n.ayns.source_file, bool(n.ayns.safe)))
    return out


def make_job(root, i, job):
    from awesomeyaml.builder import Builder
    from awesomeyaml.config import Config
    main = os.path.join(root, f'job{i}', 'main.yaml')

    def run(_i):
        try:
            b = Builder()
            b.add_source(main, safe=job['safe'])
            tree = b.build()
            out = ('ok', dump_tree(tree))
            if job['evaluate']:
                cfg = Config(tree)
                out = ('ok', dump_tree(tree), repr(util.typed(_plain(cfg))))
            return out
        except BaseException as e:
            return ('exc', type(e).__name__, str(e), tuple(type(x).__name__ for x in util.exc_chain(e)))
    return run


def _plain(v):
    if isinstance(v, dict):
        return {k: _plain(x) for k, x in v.items()}
    if isinstance(v, list):
        return [_plain(x) for x in v]
    return v


def run(case):
    root = os.path.realpath(tempfile.mkdtemp(prefix='verif_c20_'))
    vio = []
    feats = ['threads=%d' % len(case['jobs'])] + ['job_' + j['fail'] for j in case['jobs']]
    nontrivial = False
    sig_parts = []
    try:
        for i, job in enumerate(case['jobs']):
            for fn, txt in job['files'].items():
                p = os.path.join(root, f'job{i}', fn)
                os.makedirs(os.path.dirname(p), exist_ok=True)
                with open(p, 'w') as f:
                    f.write(txt)
        for fn, txt in (case.get('shared') or {}).items():
            p = os.path.join(root, 'shared', fn)
            os.makedirs(os.path.dirname(p), exist_ok=True)
            with open(p, 'w') as f:
                f.write(txt)
        if case.get('shared'):
            feats.append('jobs_share_included_files')
        fns = [make_job(root, i, j) for i, j in enumerate(case['jobs'])]
        solo = {i: fn(i) for i, fn in enumerate(fns)}
        # second solo run: the comparison is only meaningful for deterministic jobs
        again = {i: fn(i) for i, fn in enumerate(fns)}
        if solo != again:
            return {'status': 'inconclusive', 'why': 'a job is not deterministic when run alone'}
        # total number of line events of one sequential run under instrumentation (needed to place sweep points)
        s0 = sched.Sched(len(fns), 'none')
        out0, ok0 = _inst[0].run(s0, fns)
        if not ok0:
            return {'status': 'inconclusive', 'why': 'sequential instrumented run did not finish (watchdog)'}
        total = max(1, s0.events)
        _counts['line_events'] += s0.events
        if out0 != solo:
            vio.append({'mech': 'differs-without-preemption', 'what': f'threads run one after another (no preemption) already differ from solo runs: {_first_diff(solo, out0)}'})
        settings0 = _process_settings()
        for sc in case['scheds']:
            if vio:
                break
            now = _process_settings()
            if now != settings0:
                vio.append({'mech': 'process-wide-setting-changed-by-concurrent-builds', 'what': f'after the schedules so far {[k for k in settings0 if settings0[k] != now[k]]} changed: before {settings0}, now {now} (one build after another leaves them alone); jobs={_desc(case)}'})
                break
            if sc['policy'] == 'coldstart':
                # two builds which are the first ones of their process (a fresh interpreter: see vlib/coldstart.py)
                import json
                import subprocess
                try:
                    p = subprocess.run([sys.executable, '-m', 'vlib.coldstart', sc['how'], str(sc['seed'])], cwd=env.VERIF, env=env.child_env(), capture_output=True, text=True, timeout=120)
                    rep = json.loads([l for l in p.stdout.splitlines() if l.startswith('{')][-1])
                except Exception as e:
                    return {'status': 'inconclusive', 'why': f'cold-start subprocess gave no report: {e!r}'}
                _counts['coldstart_runs'] = _counts.get('coldstart_runs', 0) + 1
                feats.append('first_builds_of_a_process_' + sc['how'])
                if not rep.get('finished'):
                    return {'status': 'inconclusive', 'why': 'cold-start subprocess did not finish its schedule'}
                bad = {i: t for i, t in rep['threads'].items() if not t or not t.get('ok') or t.get('n_foreign') or t.get('pickles') is not True}
                if bad:
                    vio.append({'mech': 'first-builds-of-a-process-interfere', 'what': f'two threads building as the first users of a fresh process ({sc["how"]} schedule, seed {sc["seed"]}, {rep["switches"]} switches): {bad}'})
                continue
            if sc['policy'] == 'free':
                old = sys.getswitchinterval()
                sys.setswitchinterval(1e-6)
                try:
                    for _ in range(sc['reps']):
                        res = {}
                        ths = [threading.Thread(target=lambda i=i, fn=fn: res.__setitem__(i, fn(i)), daemon=True) for i, fn in enumerate(fns)]
                        for t in ths:
                            t.start()
                        for t in ths:
                            t.join(60)
                        _counts['free_running_runs'] += 1
                        feats.append('free_running')
                        if res != solo:
                            vio.append({'mech': 'free-running-interference', 'what': f'free-running threads (switch interval 1e-6): {_first_diff(solo, res)}; jobs={_desc(case)}'})
                            break
                finally:
                    sys.setswitchinterval(old)
                continue
            if sc['policy'] == 'random':
                s = sched.Sched(len(fns), 'random', seed=sc['seed'], p=sc['p'])
            elif sc['policy'] == 'stepfn':
                s = sched.Sched(len(fns), 'stepfn', fnames=sc['fnames'])
            elif sc.get('window'):
                # the parsing phase of the first thread is where the thread-local defaults are installed: sweep a point inside the first 15%
                s = sched.Sched(len(fns), 'sweep', points=[max(1, int(total * 0.15 * random.Random(util.sig(case)).random() / len(fns)))])
            else:
                s = sched.Sched(len(fns), 'sweep', points=[max(1, int(f * total)) for f in sc['frac']])
            out, ok = _inst[0].run(s, fns)
            _counts['schedules_run'] += 1
            _counts['switches'] += len(s.trace)
            _counts['line_events'] += s.events
            for site in s.sites:
                _sites.add(site)
                if site[0] in ('node.py', 'builder.py', 'errors.py'):
                    _counts['sites_in_thread_local_windows'] += 1
            h = util.sig([e[:3] for e in s.trace])
            _hashes.add(h)
            sig_parts.append(h)
            feats.append('policy_' + s.policy)
            if len(s.trace) > 0:
                nontrivial = True
            if not ok:
                return {'status': 'inconclusive', 'why': f'schedule {sc} did not finish within the watchdog (token at {s.cur}, alive {sorted(s.alive)})'}
            if out != solo:
                vio.append({'mech': 'interference-under-schedule', 'what': f'policy={sc} switches={[(e[0], e[1], e[2], e[3]) for e in s.trace[:6]]}: {_first_diff(solo, out)}; jobs={_desc(case)}'})
        if not vio and _process_settings() != settings0:
            now = _process_settings()
            vio.append({'mech': 'process-wide-setting-changed-by-concurrent-builds', 'what': f'after the concurrent runs {[k for k in settings0 if settings0[k] != now[k]]} changed: before {settings0}, now {now}; jobs={_desc(case)}'})
            # (put it back: the following cases of this worker start from the same state)
            sys.setrecursionlimit(settings0['recursion_limit'])
    finally:
        shutil.rmtree(root, ignore_errors=True)
    res = {'status': 'violation' if vio else 'ok', 'nontrivial': nontrivial, 'feats': sorted(set(feats)), 'sig': util.sig(sig_parts), 'evals': len(case['scheds'])}
    if vio:
        res['violations'] = vio[:2]
    return res


def _process_settings():
    """interpreter-wide settings a build has no business changing for other threads"""
    import gc
    import warnings
    return {'recursion_limit': sys.getrecursionlimit(), 'cwd': os.getcwd(), 'sys_path_len': len(sys.path), 'environ': util.sig(sorted(os.environ.items())),
            'stack_size': threading.stack_size(), 'gc_enabled': gc.isenabled(), 'warning_filters': len(warnings.filters), 'umask_probe': None,
            'excepthook': getattr(threading.excepthook, '__name__', '?'), 'trace': sys.gettrace() is not None, 'profile': sys.getprofile() is not None}


def _desc(case):
    return [(j['fail'], 'safe' if j['safe'] else 'unsafe', 'evaluate' if j['evaluate'] else 'merge-only') for j in case['jobs']]


def _first_diff(solo, out):
    for i in sorted(solo):
        a, b = solo[i], out.get(i)
        if a == b:
            continue
        if b is None:
            return f'thread {i} produced nothing'
        if a[0] != b[0]:
            return f'thread {i}: alone -> {a[0]} {a[1] if a[0] == "exc" else ""}; concurrently -> {b[0]} {b[1:3] if b[0] == "exc" else ""}'
        if a[0] == 'exc':
            return f'thread {i}: alone raises {a[1]} chain {a[3]} text {a[2][:200]!r}; concurrently raises {b[1]} chain {b[3]} text {b[2][:200]!r}'
        for x, y in zip(a[1], b[1]):
            if x != y:
                return f'thread {i}: node {x[0]!r} alone = (value {x[1]}, source_file {x[2]!r}, safe {x[3]}) but concurrently = (value {y[1]}, source_file {y[2]!r}, safe {y[3]})'
        return f'thread {i}: outcomes differ in length or evaluated data'
    return 'no difference?'
