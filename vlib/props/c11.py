"""C11 - evaluation yields plain Python data and leaves the source tree reusable.

Invariant walker over the *result* (no awesomeyaml node anywhere, exact builtin
types, attribute access is item access, structure mirrors the merged tree) plus
a history check on the *source*: its canonical view must be identical before
evaluation, after 1-4 evaluations and after arbitrary mutation of the evaluated
config; re-evaluating the source must give an equal config and really re-run the
dynamic nodes (invocation log).
"""
import copy
import random
import functools
import pathlib

from .. import gen, emit, lib, util, view, monitors
from ..emit import M, L, S, SP
from . import c19

ID = 'C11'
LEVEL = 'exploration'
TECHNIQUE = 'runtime monitoring: recursive type walker over built configs + before/after canonical view of the kept source tree across repeated evaluations and result mutations'
LEVEL_TEXT = ('Held on the generated trees only: 1-3 stage merges over the merge vocabulary enriched with every evaluable dynamic kind (recorders returning plain data and objects, '
              '!bind, !path, !import, !xref, f-strings, !eval) are built; the result is walked (values, keys, tuple members, partial.args/keywords), cfg.k is cfg[k] is checked for every '
              'identifier key, the merged source is viewed before and after 1-4 re-evaluations and after mutation scripts on the result.')
LEVEL_NOTE = 'Trusted: view.tree_view (kinds, values, every effective flag, metadata) as the canonical dump of the source; the type walker in c11.py.'
RULE = 'seeded merge sequences with dynamic nodes; non-trivial = the built config contains a container and at least one dynamic node was evaluated; distinct = hash of texts'
ASSUMPTIONS = ['recorders named plain* return equal plain data on every call, so two evaluations of one source are comparable with ==']
TIERS = {'quick': {'cases': 2500, 'budget': 60}, 'thorough': {'cases': 80000, 'budget': 900}}
POOL = ['a', 'b', 'c', 'd', '_u', 'k1']
MIN_COUNTERS = {'plain_scalars_compared': 1}
_counts = {'plain_scalars_compared': 0}


def finish():
    return dict(_counts)


FLAGS = ('prio', 'del', 'xdel', 'new', 'safe', 'src', 'attrs')


def gen_case(rng, tier):
    n = rng.choice([1, 1, 2, 3])
    docs = gen.rand_merge_sequence(rng, n, depth=rng.choice([2, 3]), flags_p=0.15, specials_p=0.0, vocab=('prio', 'del', 'md'), notnew=False, pool_s=POOL,
                                   hostile=rng.random() < 0.3, kinds=('s', 's', 's', 'i'))
    out = []
    for d in docs:
        d = gen.decorate_specials(rng, d, gen.BUILDABLE_KINDS, p=rng.choice([0.3, 0.5, 0.7]), flag_vocab=('prio', 'md'))
        # recorders that return plain data (comparable across evaluations)
        for _, nd in emit.walk(d):
            if nd['t'] == 'sp' and nd['kind'] == 'call' and rng.random() < 0.7:
                nd['func'] = nd['func'].replace('verif_targets.t', 'verif_targets.plain')
            if nd['t'] == 'sp' and nd['kind'] in ('call', 'bind') and nd.get('args') and nd['args']['t'] == 'map':
                nd['args']['items'] = [it for it in nd['args']['items'] if isinstance(it[0], str)]    # keep the calls well-formed (binding errors are C13's subject)
            if nd['t'] == 'sp' and nd['kind'] == 'path' and nd.get('ref') in ('parent', 'parent(1)', 'file'):
                nd['ref'] = 'cwd'        # these sources have no file name
            if nd['t'] == 'sp' and nd['kind'] in ('xref', 'ref'):
                tops = [k for k, c in d['items'] if isinstance(k, str) and c['t'] != 'sp']
                if tops and rng.random() < 0.8:
                    nd['path'] = rng.choice(tops)
        out.append(d)
    out[0]['items'].append(['canary', SP('call', func='verif_targets.plain0', args=M([['x', S(1)]]))])
    if rng.random() < 0.5:
        # code which reads top-level entries by their bare names (what symbols handed to SOME OTHER evaluation context must never shadow)
        out[0]['items'].append(['peek', SP('eval', code=rng.choice(["canary['n'] + 1", "[canary['plain'], canary['n'] * 2]", "lookup = canary\n(lookup['n'], 'x')"]))])
    if rng.random() < 0.3:
        # a reference INTO a container, then code that hands out the whole container by name, then the container itself: what the
        # evaluation keeps for the half-evaluated container in between is its own business and must not come out
        hold = M([['inner', M([['v', S(1)], ['w', S('x', style='dq')]])], ['lst', L([S(1), M([['out', S(2)]])])]])
        into = rng.choice(['hold.inner.v', 'hold.lst[1].out', 'hold.inner'])
        whole = rng.choice(['hold', 'hold', "hold['lst']", 'ayns.cfg.hold', "[hold, 1]"])
        out[0]['items'] = [['zz_first', SP('xref', path=into)], ['zz_whole', SP('eval', code=whole)]] + out[0]['items'] + [['hold', hold]]
    if rng.random() < 0.5:
        # mutable objects built by the leading statements of a multi-statement !eval node: every evaluation builds them anew
        out[0]['items'].append(['acc', SP('eval', code=rng.choice(["acc_v = [1, {'k': [2]}]\nacc_v", "import collections\nd = collections.OrderedDict(k=[2])\n[0, d]",
                                                                    "def mk():\n    return [1, {'k': [2]}]\nstore = mk()\nstore"]))])
    muts = [{'sel': rng.random(), 'op': rng.choice(['append', 'setitem', 'delattr', 'clear', 'setattr', 'pop']), 'r': rng.random(), 'value': rng.choice([1, 'm', None, [1], {'q': 1}])}
            for _ in range(rng.randrange(1, 6))]
    style = rng.choice(['flow', 'block'])
    # a second sequence of the same layout with other scalar values (built with the same evaluation context when it is shared)
    other = copy.deepcopy(out)
    mk2 = gen.Marker('w')
    for d in other:
        for _, nd in emit.walk(d):
            if nd['t'] == 'sc' and not nd.get('vdel') and isinstance(nd.get('v'), (str, int, float)) and not isinstance(nd.get('v'), bool):
                nd['v'] = mk2.next(rng, 's')
                nd['style'] = 'dq'
    return {'texts': [emit.emit(d, style) for d in out], 'other': [emit.emit(d, style) for d in other], 'reevals': rng.choice([1, 1, 2, 4]), 'muts': muts,
            'shared_ctx': rng.random() < 0.5}


PLAIN = (int, float, bool, str, bytes, type(None))


def walk_types(v, path, problems, seen):
    from awesomeyaml.nodes.node import ConfigNode
    from awesomeyaml.utils import Bunch
    if id(v) in seen:
        return
    seen.add(id(v))
    if isinstance(v, ConfigNode):
        problems.append(f'{path}: awesomeyaml node {type(v).__name__} inside the built config')
        return
    if isinstance(v, dict):
        for k, x in v.items():
            if isinstance(k, ConfigNode):
                problems.append(f'{path}: key {k!r} is an awesomeyaml node ({type(k).__name__})')
            elif type(k) not in PLAIN:
                problems.append(f'{path}: key {k!r} has type {type(k).__name__}')
            if isinstance(v, Bunch) and isinstance(k, str) and k.isidentifier() and not k.startswith('_') and not hasattr(dict, k):
                try:
                    if getattr(v, k) is not v[k]:
                        problems.append(f'{path}: cfg.{k} is not cfg[{k!r}]')
                except AttributeError as e:
                    problems.append(f'{path}: attribute access to {k!r} fails: {e}')
            walk_types(x, path + [k], problems, seen)
        return
    if isinstance(v, list):
        if type(v) is not list:
            problems.append(f'{path}: sequence is {type(v).__name__}, not list')
        for i, x in enumerate(v):
            walk_types(x, path + [i], problems, seen)
        return
    if isinstance(v, tuple):
        for i, x in enumerate(v):
            walk_types(x, path + [i], problems, seen)
        return
    if isinstance(v, functools.partial):
        walk_types(list(v.args), path + ['<partial.args>'], problems, seen)
        walk_types(dict(v.keywords), path + ['<partial.keywords>'], problems, seen)
        return
    if isinstance(v, PLAIN):
        if type(v) not in PLAIN:
            problems.append(f'{path}: scalar {v!r} has type {type(v).__name__}, not the builtin type')
        return
    import verif_targets
    if isinstance(v, verif_targets.Result):
        walk_types(list(v.args), path + ['<result.args>'], problems, seen)
        walk_types(dict(v.kwargs), path + ['<result.kwargs>'], problems, seen)


def mirror(src, res, path, problems):
    """the result has the shape of the merged tree: same keys / lengths at plain containers"""
    from awesomeyaml.nodes.dict import ConfigDict
    from awesomeyaml.nodes.list import ConfigList
    from awesomeyaml.nodes.function import FunctionNode
    if type(src) is ConfigDict:
        from awesomeyaml.utils import Bunch
        if not isinstance(res, Bunch):
            problems.append(f'{path}: mapping node evaluated to {type(res).__name__}, not an attribute-accessible dict')
            return
        sk = [view.key_native(k) for k in src.ayns.children_names()]
        if sk != list(res.keys()):
            problems.append(f'{path}: source keys {sk} but result keys {list(res.keys())}')
            return
        for k, c in src.ayns.named_children():
            mirror(c, res[view.key_native(k)], path + [view.key_native(k)], problems)
    elif type(src) is ConfigList:
        if not isinstance(res, list) or len(res) != len(src):
            problems.append(f'{path}: list node of {len(src)} evaluated to {type(res).__name__} of {len(res) if hasattr(res, "__len__") else "?"}')
            return
        for i, c in enumerate(src.ayns.children()):
            mirror(c, res[i], path + [i], problems)
    elif type(src).__name__.startswith('ConfigScalar('):
        # a plain scalar node evaluates to its own value, in its exact python type (1.0 is not 1, -0.0 is not 0.0)
        nat = src.ayns.native_value
        _counts['plain_scalars_compared'] = _counts.get('plain_scalars_compared', 0) + 1
        if type(res) is not type(nat) or repr(res) != repr(nat):
            problems.append(f'{path}: the scalar node holds {nat!r} ({type(nat).__name__}) but evaluated to {res!r} ({type(res).__name__})')


def mutate_result(cfg, muts):
    conts = []

    def rec(v):
        if isinstance(v, (dict, list)):
            conts.append(v)
            for x in (v.values() if isinstance(v, dict) else v):
                rec(x)
    rec(cfg)
    for m in muts:
        c = conts[int(m['sel'] * len(conts))]
        try:
            if isinstance(c, dict):
                ks = list(c)
                k = ks[int(m['r'] * len(ks))] if ks else 'new'
                if m['op'] in ('setitem', 'append'):
                    c[k] = copy.deepcopy(m['value'])
                elif m['op'] == 'setattr':
                    setattr(c, 'fresh', copy.deepcopy(m['value']))
                elif m['op'] in ('delattr', 'pop'):
                    del c[k]
                else:
                    c.clear()
            else:
                if m['op'] in ('append', 'setattr'):
                    c.append(copy.deepcopy(m['value']))
                elif m['op'] == 'setitem' and c:
                    c[int(m['r'] * len(c))] = copy.deepcopy(m['value'])
                elif m['op'] in ('pop', 'delattr') and c:
                    c.pop(int(m['r'] * len(c)))
                else:
                    c.clear()
        except (KeyError, IndexError, TypeError, ValueError, AttributeError):
            pass
    # mutable objects computed by !eval code are part of the result like any other: edit them in place too
    try:
        acc = cfg['acc']
        acc.append('mutated')
        acc[1]['k'].append('mutated')
    except (KeyError, IndexError, TypeError, AttributeError):
        pass
    return cfg


def _tag(v):
    import verif_targets
    if isinstance(v, verif_targets.Result):
        return ('R', v.name)
    if callable(v):
        return ('callable', getattr(v, '__qualname__', '?'))
    return None


def run(case):
    import verif_targets
    from awesomeyaml.config import Config
    texts = case['texts']
    mo = lib.outcome(lambda: lib.merged(texts))
    if mo[0] == 'err' or mo[1] is None:
        return {'status': 'skip', 'feats': ['merge_fails']}
    tree = mo[1]
    if not tree:
        # the empty merged tree: a config like any other - it keeps its (empty) source, and evaluating that again gives {} again
        o = lib.outcome(lambda: Config(tree))
        o2 = lib.outcome(lambda: Config(o[1].ayns.source)) if o[0] == 'ok' else o
        if o2[0] != 'ok' or dict(o2[1]) != {} or dict(o[1]) != {}:
            return {'status': 'violation', 'nontrivial': False, 'feats': ['empty_root'],
                    'violations': [{'mech': 'empty-config-source-not-reusable', 'what': f'the merged tree is empty: Config(tree) -> {lib.describe(o) if o[0] == "err" else dict(o[1])}, Config(cfg.ayns.source) -> {lib.describe(o2) if o2[0] == "err" else dict(o2[1])}; texts={texts!r}'}]}
        return {'status': 'ok', 'nontrivial': False, 'feats': ['empty_root']}
    src_before = view.tree_view(tree, flags=FLAGS, md=True)
    verif_targets.reset()
    from awesomeyaml.eval_context import EvalContext
    shared = EvalContext() if case.get('shared_ctx') else None
    mk = (lambda: shared) if shared is not None else (lambda: None)
    got = lib.outcome(lambda: Config(tree, eval_ctx=mk()))
    if got[0] == 'err':
        # e.g. an !import that fails, an !eval raising: the source must still be untouched
        feats = ['eval_fails_' + lib.err_kind(got[1])]
        if view.tree_view(tree, flags=FLAGS, md=True) != src_before:
            return {'status': 'violation', 'nontrivial': True, 'feats': feats, 'violations': [{'mech': 'failed-evaluation-modifies-source', 'what': f'texts={texts!r}'}]}
        return {'status': 'ok', 'nontrivial': False, 'feats': feats}
    cfg = got[1]
    n_calls = len(verif_targets.LOG)
    feats = ['dynamic_calls=%d' % min(n_calls, 5)]
    vio = []
    problems = []
    walk_types(cfg, [], problems, set())
    if problems:
        vio.append({'mech': 'not-plain-python', 'what': f'{problems[0]} ({len(problems)} problem(s)); texts={texts!r}'})
    mp = []
    mirror(cfg.ayns.source, cfg, [], mp)
    if mp:
        vio.append({'mech': 'structure-differs-from-source', 'what': f'{mp[0]}; texts={texts!r}'})
    if cfg.ayns.source is not tree:
        feats.append('source_is_a_copy')
    if view.tree_view(cfg.ayns.source, flags=FLAGS, md=True) != src_before:
        vio.append({'mech': 'evaluation-modifies-source', 'what': f'the kept source tree differs from the merged tree before evaluation: {c19._diff(view.tree_view(cfg.ayns.source, flags=FLAGS, md=True), src_before)}; texts={texts!r}'})
    first = util.typed(c19._plain(cfg), other=_tag)
    # an unrelated evaluation context with symbols of its own, named like entries of this config, comes and goes in between
    from awesomeyaml.eval_context import EvalContext as _EC
    _EC(eval_symbols=dict({str(k): 'SYMBOL_OF_ANOTHER_CONTEXT' for k in cfg.keys() if isinstance(k, str) and k.isidentifier()}, canary={'n': 1000, 'plain': 'other'}))
    feats.append('unrelated_context_with_same_named_symbols')
    if not vio:
        for i in range(case['reevals']):
            verif_targets.reset()
            again = lib.outcome(lambda: Config(cfg.ayns.source, eval_ctx=mk()))
            feats.append('reevaluated' + ('_shared_ctx' if shared is not None else ''))
            if again[0] == 'err':
                vio.append({'mech': 'source-not-reusable', 'what': f're-evaluating cfg.ayns.source fails: {lib.describe(again)}; texts={texts!r}'})
                break
            if util.typed(c19._plain(again[1]), other=_tag) != first:
                vio.append({'mech': 'reevaluation-differs', 'what': f're-evaluating the source gives {util.short(c19._plain(again[1]), 300)} instead of {util.short(c19._plain(cfg), 300)}; texts={texts!r}'})
                break
            if len(verif_targets.LOG) != n_calls:
                vio.append({'mech': 'reevaluation-does-not-rerun', 'what': f'first evaluation made {n_calls} target calls, re-evaluation {len(verif_targets.LOG)}; texts={texts!r}'})
                break
            if not _has_obj(first) and "'nan'" not in repr(first):
                if not (again[1] == cfg):
                    vio.append({'mech': 'reevaluation-not-equal', 'what': f'Config(cfg.ayns.source) != cfg; texts={texts!r}'})
                    break
    if not vio:
        mutate_result(cfg, case['muts'])
        feats.append('result_mutated')
        if view.tree_view(cfg.ayns.source, flags=FLAGS, md=True) != src_before:
            vio.append({'mech': 'mutating-result-changes-source', 'what': f'mutations {case["muts"]!r} of the evaluated config changed the source tree; texts={texts!r}'})
        else:
            verif_targets.reset()
            again = lib.outcome(lambda: Config(cfg.ayns.source, eval_ctx=mk()))
            if again[0] == 'err' or util.typed(c19._plain(again[1]), other=_tag) != first:
                vio.append({'mech': 'mutating-result-changes-reevaluation', 'what': f'after mutating the result the source evaluates differently; texts={texts!r}'})
    if not vio and shared is not None and case.get('other'):
        # another tree built with the same context must evaluate as it does with a fresh one
        o1 = lib.outcome(lambda: lib.build(case['other'], eval_ctx=shared))
        o2 = lib.outcome(lambda: lib.build(case['other']))
        feats.append('second_tree_same_ctx')
        if o1[0] != o2[0] or (o1[0] == 'ok' and util.typed(c19._plain(o1[1]), other=_tag) != util.typed(c19._plain(o2[1]), other=_tag)):
            vio.append({'mech': 'context-carries-state-between-builds', 'what': f'a second tree evaluated with a reused EvalContext gives {util.short(c19._plain(o1[1]) if o1[0] == "ok" else o1[1], 300)}, with a fresh one {util.short(c19._plain(o2[1]) if o2[0] == "ok" else o2[1], 300)}; first texts={texts!r} second texts={case["other"]!r}'})
    nt = n_calls > 0 and any(isinstance(v, (dict, list)) for v in cfg.values())
    res = {'status': 'violation' if vio else 'ok', 'nontrivial': nt, 'feats': sorted(set(feats)), 'sig': util.sig(texts), 'evals': 2 + case['reevals']}
    if vio:
        res['violations'] = vio[:2]
    return res


def _has_obj(t):
    if isinstance(t, tuple):
        if t and t[0] in ('obj', 'other', 'partial', 'path'):
            return True
        return any(_has_obj(x) for x in t)
    return False
