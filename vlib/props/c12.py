"""C12 - !eval and f-strings compute what Python computes, with config names visible.

Differential execution per generated program: the value (or the exception
class) delivered by an !eval / f-string node is compared with native
exec(all-but-last line); eval(last line) in a plain dict namespace layered as
builtins < top-level config entries < context symbols < the code's own
definitions.  Programs run in child processes which journal every case before
running it, so a dying interpreter pins the culprit (a crash is a violation).
Each case is a *history* of 1-5 builds in one process that reuse the same path
and code with different config values and symbols.
"""
import sys
import copy
import random

from .. import gen, emit, lib, util
from ..emit import M, L, S, SP

ID = 'C12'
LEVEL = 'translation_validation'
TECHNIQUE = 'runtime monitoring: per-program differential execution against native exec/eval in child processes with crash journaling; build histories in one process for cross-build leakage'
LEVEL_TEXT = ('Held on the generated programs only: a grammar of expressions, assignments and augmented assignments, def / lambda / closures reading config names at any depth, '
              'list / dict / set / generator comprehensions, conditionals, for / while / break / continue / else, try / except / else / finally with raised and propagated exceptions, '
              'with, import / from-import, and long programs (>256 names and constants); names drawn from four pools (own definition, context symbol, top-level config key, builtin) with '
              'deliberate shadowing; f-strings with expressions, conversions and format specs in the f\'..\', f".." and !fstr spellings; with and without a source file name; characters str.splitlines() breaks at but the tokenizer does not, inside literals; '
              'histories of 1-5 builds per process. Each program\'s value or exception class must equal the native one; the interpreter must never die.')
LEVEL_NOTE = ('Trusted: CPython\'s own exec/eval on a plain dict as the reference semantics. Programs contain no ";" and no class statements (outside the statement\'s grammar); '
              'the last line is a single-line expression.')
RULE = 'seeded program + name environment + build history; non-trivial = the program reads at least one config name; distinct = hash of (code, environment)'
ASSUMPTIONS = ['generated programs are deterministic and side-effect free apart from their own namespace']
TIERS = {'quick': {'cases': 3000, 'budget': 60}, 'thorough': {'cases': 100000, 'budget': 900}}
JOURNAL = True
CRASH_IS_VIOLATION = True
CASE_TIMEOUT = 30

CFG_NAMES = ['c0', 'c1', 'c2', 'c3', 'data', 'elems']
SYM_NAMES = ['s0', 's1', 'helper', 'c3', 'len']          # c3 shadows a config key, len shadows a builtin
BUILTINS = ['len', 'sum', 'max', 'min', 'abs', 'sorted', 'str', 'int', 'list', 'range']


def classify_crash(case, rc):
    return 'interpreter-crash'


class PG:
    def __init__(self, rng, cfg_names, sym_names):
        self.rng = rng
        self.cfg = cfg_names
        self.sym = sym_names
        self.own = []
        self.lines = []
        self.n = 0
        self.used_cfg = set()

    def fresh(self):
        self.n += 1
        return f'v{self.n}'

    def int_name(self, depth=0):
        """an expression of integer type"""
        r = self.rng.random()
        pool = []
        if self.own and r < 0.3:
            return self.rng.choice(self.own)
        if r < 0.6 and self.cfg:
            n = self.rng.choice(self.cfg[:4])
            self.used_cfg.add(n)
            return n
        if r < 0.75:
            return self.rng.choice(['s0', 's1'])
        if r < 0.85:
            self.used_cfg.add('elems')
            return f'elems[{self.rng.randrange(0, 3)}]'
        if r < 0.92:
            self.used_cfg.add('data')
            return f'data["{self.rng.choice(["a", "b"])}"]'
        return str(self.rng.randrange(-5, 50))

    def expr(self, depth=2):
        rng = self.rng
        if depth <= 0:
            return self.int_name()
        r = rng.random()
        a, b = self.expr(depth - 1), self.expr(depth - 1)
        if r < 0.25:
            return f'({a} {rng.choice(["+", "-", "*", "//", "%", "&", "|", "^"])} {b})' if rng.random() < 0.8 else f'({a} + {b})'
        if r < 0.33:
            return f'({a} if {a} {rng.choice(["<", "<=", "==", "!=", ">"])} {b} else {b})'
        if r < 0.42:
            self.used_cfg.add('elems')
            return f'{rng.choice(["sum", "max", "min", "len"])}([x + {a} for x in elems])'
        if r < 0.48:
            self.used_cfg.add('elems')
            return f'sum(x * {a} for x in elems if x != {b})'
        if r < 0.53:
            self.used_cfg.add('data')
            return f'sum({{k: v + {a} for k, v in data.items()}}.values())'
        if r < 0.57:
            return f'len({{x % 3 for x in range({a} % 7)}})'
        if r < 0.65:
            return f'(lambda q: q + {a})({b})'
        if r < 0.70:
            return f'(lambda q: (lambda w: w * q + {a})({b}))(2)'
        if r < 0.75:
            return f'abs({a})'
        if r < 0.80:
            return f'helper({a})'
        if r < 0.84:
            return f'int(str({a})[-1])'
        if r < 0.88:
            return f'[{a}, {b}][{rng.randrange(0, 2)}]'
        if r < 0.92:
            return f'({a} and {b} or {self.int_name()})'
        if r < 0.95:
            return f'(not {a}) + {b}'
        return f'len("{"x" * rng.randrange(0, 4)}") + {a}'

    def stmt(self, depth=1, indent=''):
        rng = self.rng
        r = rng.random()
        e = self.expr(depth)
        out = []
        if r < 0.22:
            v = self.fresh() if rng.random() < 0.8 else rng.choice(['c0', 's0', 'len2'])      # sometimes shadow a config key / a symbol
            out.append(f'{indent}{v} = {e}')
            self.own.append(v)
        elif r < 0.30 and self.own:
            out.append(f'{indent}{rng.choice(self.own)} {rng.choice(["+=", "-=", "*="])} {e}')
        elif r < 0.42:
            f = self.fresh()
            body = self.expr(depth)
            out.append(f'{indent}def {f}(a, b=2):')
            if rng.random() < 0.4:
                inner = self.fresh()
                out.append(f'{indent}    def {inner}(z):')
                out.append(f'{indent}        return z + a + {self.int_name()}')
                out.append(f'{indent}    return {inner}(b) + {body}')
            else:
                out.append(f'{indent}    return a * b + {body}')
            v = self.fresh()
            out.append(f'{indent}{v} = {f}({e})')
            self.own.append(v)
        elif r < 0.52:
            v = self.fresh()
            out.append(f'{indent}{v} = 0')
            self.used_cfg.add('elems')
            out.append(f'{indent}for i in elems:')
            out.append(f'{indent}    if i == {self.int_name()}:')
            out.append(f'{indent}        continue')
            out.append(f'{indent}    {v} += i + {self.expr(0)}')
            if rng.random() < 0.4:
                out.append(f'{indent}else:')
                out.append(f'{indent}    {v} += 1')
            self.own.append(v)
        elif r < 0.60:
            v = self.fresh()
            out.append(f'{indent}{v} = {e} % 5')
            out.append(f'{indent}while {v} > 0:')
            out.append(f'{indent}    {v} -= 1')
            out.append(f'{indent}    if {v} == {self.int_name()} % 5:')
            out.append(f'{indent}        break')
            self.own.append(v)
        elif r < 0.72:
            v = self.fresh()
            exc = rng.choice(['ValueError', 'KeyError', 'ZeroDivisionError', 'IndexError'])
            out.append(f'{indent}try:')
            k = rng.random()
            if k < 0.3:
                out.append(f'{indent}    {v} = {e} // ({self.int_name()} - {self.int_name()})')
            elif k < 0.5:
                self.used_cfg.add('data')
                out.append(f'{indent}    {v} = data["missing"] + {e}')
            elif k < 0.7:
                out.append(f'{indent}    raise {exc}({e})')
            else:
                out.append(f'{indent}    {v} = {e}')
            out.append(f'{indent}except ({exc}, ZeroDivisionError) as err:')
            out.append(f'{indent}    {v} = -1 + {self.int_name()}')
            if rng.random() < 0.4:
                out.append(f'{indent}else:')
                out.append(f'{indent}    {v} += 1')
            if rng.random() < 0.4:
                out.append(f'{indent}finally:')
                out.append(f'{indent}    fin = {self.int_name()}')
                self.own.append('fin') if 'fin' not in self.own else None
            # v may be unbound if another exception class escapes: keep a default
            out.insert(0, f'{indent}{v} = 0')
            self.own.append(v)
        elif r < 0.80:
            v = self.fresh()
            out.append(f'{indent}import contextlib')
            out.append(f'{indent}with contextlib.suppress(KeyError) as cm:')
            out.append(f'{indent}    {v} = {e}')
            self.own.append(v)
        elif r < 0.84:
            # an optional config entry: present in some builds, absent (NameError, handled) in others
            v = self.fresh()
            nm = rng.choice(['extra0', 'extra1'])
            out.append(f'{indent}try:')
            out.append(f'{indent}    {v} = {nm} + {e}')
            out.append(f'{indent}except NameError:')
            out.append(f'{indent}    {v} = -7')
            self.own.append(v)
            self.used_cfg.add(nm)
        elif r < 0.92:
            k = rng.random()
            v = self.fresh()
            if k < 0.5:
                out.append(f'{indent}import math')
                out.append(f'{indent}{v} = math.floor({e} + 0.5) + math.gcd(12, {self.int_name()})')
            else:
                out.append(f'{indent}from math import floor as fl')
                out.append(f'{indent}{v} = fl({e} / 2)')
            self.own.append(v)
        else:
            v = self.fresh()
            out.append(f'{indent}if {e} > {self.int_name()}:')
            out.append(f'{indent}    {v} = {self.expr(depth)}')
            out.append(f'{indent}elif {self.int_name()}:')
            out.append(f'{indent}    {v} = 1')
            out.append(f'{indent}else:')
            out.append(f'{indent}    {v} = 2')
            self.own.append(v)
        return out


def gen_program(rng):
    pg = PG(rng, CFG_NAMES, SYM_NAMES)
    kind = rng.choice(['expr', 'expr', 'multi', 'multi', 'multi', 'long', 'raises', 'global', 'callable', 'annot', 'semi', 'oddchar'])
    lines = []
    if kind == 'expr':
        lines = [pg.expr(rng.choice([1, 2, 3]))]
    elif kind == 'multi':
        for _ in range(rng.randrange(1, 6)):
            lines += pg.stmt(rng.choice([0, 1, 2]))
        lines.append(pg.expr(2) + (' + ' + ' + '.join(pg.own[-3:]) if pg.own else ''))
    elif kind == 'long':
        n = rng.choice([260, 300, 400])
        for i in range(n):
            lines.append(f'w{i} = {i} + {pg.int_name() if i % 50 == 0 else i % 7}')
        lines.append(' + '.join(f'w{i}' for i in range(0, n, 3)) + ' + ' + pg.expr(1))
    elif kind == 'raises':
        lines += pg.stmt(1)
        lines.append(rng.choice(['undefined_name + 1', '1 // 0', 'data["nope"]', 'elems[99]', 'int("x")', 'helper()', f'{pg.int_name()} + "str"']))
    elif kind == 'semi':
        # a semicolon is only a statement separator where Python says so: not inside string literals, and it may follow an indented statement
        a = pg.int_name()
        form = rng.choice(['literal', 'dictkey', 'block', 'fstring', 'assign'])
        if form == 'literal':
            lines += [f"'x;y' + str({a})"]
        elif form == 'dictkey':
            lines += ["d = {'k;': " + a + ", 'j': 2}", "d['k;'] + d['j']"]
        elif form == 'block':
            lines += [f'if {a} > -1000:', '    p = 1; q = 2', 'else:', '    p = q = 0', f'p + q + {a}']
        elif form == 'fstring':
            lines += ['t = ";".join(["a", "b"])', f"f'{{t}};{{{a}}}'"]
        else:
            lines += [f'u = "a;b".split(";"); w = len(u)', f'w + {a}']
    elif kind == 'oddchar':
        # characters str.splitlines() breaks at but Python's tokenizer does not (form feed, vertical tab, FS/GS/RS, NEL, LS, PS): inside a
        # string literal they are ordinary characters - the code must reach the compiler as it was written (round 9, C12-i)
        ch = rng.choice(ODD_CHARS)
        a = pg.int_name()
        form = rng.choice(['triple', 'single', 'split', 'comment'])
        if form == 'triple':
            lines += [f"s = '''a{ch}b'''", f"(s, len(s), {a})"]
        elif form == 'single':
            lines += [f"'p{ch}q' + str({a})"]
        elif form == 'split':
            lines += [f"parts = 'x{ch}y{ch}z'.split('{ch}')", f"(parts, len(parts), {a})"]
        else:
            lines += [f"t = {a}  # note{ch} t = -1", f"(t, 'u{ch}')"]
    elif kind == 'annot':
        # annotations are expressions like any other: evaluated when the def / the annotated assignment runs, over the same names
        a, b = pg.int_name(), pg.int_name()
        lines += [f'def f(q: int, r: {a} = 2, *, s: "txt" = 0) -> float:', '    return q', f'v: {b} = 5',
                  rng.choice(['[(k, type(x).__name__, x if isinstance(x, (int, str)) else getattr(x, "__name__", None)) for k, x in sorted(f.__annotations__.items())]',
                              'sorted((k, repr(x)) for k, x in f.__annotations__.items())',
                              '[f.__annotations__["r"] + 1, v]'])]
    elif kind == 'callable':
        # the value is a function / lambda / closure whose body reads config names and symbols: it is called after the build (and after
        # the later builds of the history) and must still compute what the same Python function computes over the values of *its* build
        form = rng.choice(['def', 'lambda', 'closure', 'method'])
        a, b = pg.int_name(), pg.int_name()
        if form == 'def':
            lines += [f'k = {pg.expr(1)}', 'def f(q, r=2):', f'    t = q * {a} + r', f'    return t + k + {b} + len(elems) + data["a"]', 'f']
        elif form == 'lambda':
            lines += [f'lambda q: q + {a} * 2 + {b} + sum(elems)']
        elif form == 'closure':
            lines += ['def mk(w):', f'    return lambda q: [q + w + {a} for _ in range(2)] + [{b}]', f'mk({pg.expr(1)})']
        else:
            lines += ['class K:', '    def m(self, q):', f'        return (q, {a}, data["b"], {b})', 'K().m']
    else:
        lines.append('counter = 0')
        lines.append('def bump(k):')
        lines.append('    global counter')
        lines.append(f'    counter += k + {pg.int_name()}')
        lines.append('    return counter')
        lines.append(f'bump({pg.expr(1)})')
        lines.append('bump(1) + counter')
    return '\n'.join(lines), kind, sorted(pg.used_cfg)


ODD_CHARS = ['\x0c', '\x0b', '\x1c', '\x1d', '\x1e', '\x85', '\u2028', '\u2029']
FSTR_ODD = ['{c0}%s{c1}', 'a%sb {c2}', '{c0!r}%s']
FSTR = ['{max} {abs}', '{c0} and {c1 + 1}', 'x={s0!r} y={c2:>5}', '{elems[0]:03d}|{data["a"]}', '{c0 * 2:.2f} {helper(c1)}', 'plain', '{sum(x for x in elems)}',
        '{c3} shadowed by a symbol', '{ {"k": c0}["k"] }', "{'%s' % c1}", '{len(elems)}{len2 if False else ""}', "{data['a']} and {data[\"b\"]}", "it's {c0}",
        "{c0}\n{c1 + 1}", "'{c0}'"]


# implicit f-strings whose text contains their own delimiter again (escaped, re-used inside a replacement field as python >= 3.12
# allows, or as the start of an adjacent literal): still one plain YAML scalar that looks like f'..' from end to end
FSTR_SAME_QUOTE = ["f'{data['a']} of {c1}'", "f'it\\'s {c0}'", "f'{c0}' f'{c1}'", 'f"{data["b"]}|{c0}"', 'f"say \\"{c1}\\" twice"', 'f"{c0}" f"-{c2}"',
                   "f'{elems[0]}' '{c0}'"]


def gen_env(rng):
    cfg = {'c0': rng.randrange(-3, 20), 'c1': rng.randrange(0, 9), 'c2': rng.randrange(1, 100), 'c3': rng.randrange(0, 5),
           'data': {'a': rng.randrange(0, 9), 'b': rng.randrange(0, 9)}, 'elems': [rng.randrange(0, 6) for _ in range(3)]}
    sym = {'s0': rng.randrange(0, 50), 's1': rng.randrange(1, 9), 'c3': 1000 + rng.randrange(0, 9), 'hk': rng.randrange(1, 4)}
    if rng.random() < 0.3:
        sym['len'] = 'LEN'          # a symbol shadowing a builtin: marks with a lambda built in run()
    # names that exist in some builds of a history only (config entries named like builtins, optional entries)
    for name in ('extra0', 'extra1'):
        if rng.random() < 0.5:
            cfg[name] = rng.randrange(100, 200)
    if rng.random() < 0.25:
        cfg[rng.choice(['max', 'abs', 'sorted', 'min'])] = rng.randrange(2, 9)
    return cfg, sym


def gen_case(rng, tier):
    if rng.random() < 0.2:
        code, kind, used = rng.choice(FSTR), 'fstr', ['c0']
        spelling = rng.choice(['tag', 'sq', 'dq'])
        if rng.random() < 0.12:
            code, spelling = rng.choice(FSTR_ODD) % rng.choice(ODD_CHARS), 'tag'
        if ': ' in code or ' #' in code or '\n' in code or ("'" in code and spelling == 'sq') or ('"' in code and spelling == 'dq'):
            spelling = 'tag'             # the implicit forms must be plain YAML scalars and valid Python literals as they stand
        if sys.version_info >= (3, 12) and rng.random() < 0.3:
            code, spelling = rng.choice(FSTR_SAME_QUOTE), 'whole'
    else:
        code, kind, used = gen_program(rng)
        spelling = 'eval'
    builds = []
    for _ in range(rng.choice([1, 1, 2, 3, 5])):
        cfg, sym = gen_env(rng)
        builds.append({'cfg': cfg, 'sym': sym, 'filename': rng.choice([None, None, '/tmp/some/dir/cfg.yaml'])})
    other = None
    if rng.random() < 0.3:
        other = gen_program(rng)[0]          # an unrelated build interleaved between the builds of the history
    return {'route': rng.choice(['config', 'config', 'ctx']), 'code': code, 'kind': kind, 'spelling': spelling, 'builds': builds, 'used': used, 'other': other, 'key': rng.choice(['result', 'deep'])}


def symbols(sym):
    out = dict(sym)
    hk = out.pop('hk')
    out['helper'] = eval(f'lambda v=0: v + {hk}')
    if out.get('len') == 'LEN':
        out['len'] = eval('lambda x: 77')
    return out


def native(code, kind, spelling, cfg, sym):
    ns = {}
    ns.update(copy.deepcopy(cfg))
    ns.update(symbols(sym))
    if kind == 'fstr':
        text = code
        src = "f'" + text.replace("'", "\\'") + "'" if spelling == 'tag' else ("f'" + text + "'" if spelling == 'sq' else 'f"' + text + '"')
        if spelling == 'whole':
            src = text
        if spelling == 'tag':
            # "the corresponding Python f-string": the text between whichever quotes do not clash with it
            for q in ("'", '"', "'''", '"""'):
                cand = 'f' + q + text + q
                try:
                    compile(cand, '<fstr>', 'eval')
                except SyntaxError:
                    continue
                src = cand
                break
        try:
            return ('ok', eval(src, ns))
        except Exception as e:
            return ('err', type(e).__name__)
    lines = code.split('\n')
    try:
        exec('\n'.join(lines[:-1]), ns)
        return ('ok', eval(lines[-1].strip(), ns))
    except Exception as e:
        return ('err', type(e).__name__)


def build_text(case, b):
    items = [[k, emit.from_plain(v)] for k, v in b['cfg'].items()]
    if case['kind'] == 'fstr':
        if case['spelling'] == 'tag':
            node = SP('fstr', text=case['code'])
        else:
            q = "'" if case['spelling'] == 'sq' else '"'
            node = {'t': 'sp', 'kind': 'raw', 'text': ('f' + q + case['code'] + q) if case['spelling'] != 'whole' else case['code']}
    else:
        node = SP('eval', code=case['code'])
    if case['key'] == 'result':
        items.insert(len(items) // 2, ['result', node])
        doc = M(items)
    else:
        doc = M(items + [['deep', M([['er', L([S(0), node])]])]])
    if case['kind'] == 'fstr' and case['spelling'] != 'tag':
        return emit.emit(doc, 'block')
    return emit.emit(doc, 'block')


def run(case):
    from awesomeyaml.config import Config
    from awesomeyaml.eval_context import EvalContext
    vio = []
    feats = ['kind_' + case['kind'], 'builds=%d' % len(case['builds'])]
    deferred = []
    for bi, b in enumerate(case['builds']):
        exp = native(case['code'], case['kind'], case['spelling'], b['cfg'], b['sym'])
        text = build_text(case, b)
        ctx = EvalContext(eval_symbols=symbols(b['sym']))
        if case.get('route') == 'ctx':
            got = lib.outcome(lambda: lib.build_via([text], 'ctx', filenames=b['filename'], eval_ctx=ctx))
        else:
            got = lib.outcome(lambda: Config.build(text, raw_yaml=True, filename=b['filename'], eval_ctx=ctx))
        feats.append('expect_' + exp[0] + ('' if exp[0] == 'ok' else '_' + exp[1]))
        feats.append('with_filename' if b['filename'] else 'no_filename')
        where = f'build {bi + 1}/{len(case["builds"])} cfg={b["cfg"]} symbols={b["sym"]} filename={b["filename"]!r} code={case["code"]!r} spelling={case["spelling"]}'
        if exp[0] == 'ok':
            if got[0] != 'ok':
                vio.append({'mech': 'valid-program-fails', 'what': f'native value {exp[1]!r} but the node {lib.describe(got)}; {where}'})
                break
            v = got[1]['result'] if case['key'] == 'result' else got[1]['deep']['er'][1]
            if callable(exp[1]):
                if not callable(v):
                    vio.append({'mech': 'value-differs', 'what': f'native value is a callable but the node evaluated to {v!r}; {where}'})
                    break
                deferred.append((exp[1], v, where))
                for when in ('right_after_its_build',):
                    m = _call_both(exp[1], v, where, when)
                    if m:
                        vio.append(m)
                if vio:
                    break
            elif util.typed(v) != util.typed(exp[1]):
                mech = 'value-differs' if bi == 0 else 'value-differs-in-later-build'
                vio.append({'mech': mech, 'what': f'native value {exp[1]!r} but the node evaluated to {v!r}; {where}'})
                break
        else:
            if got[0] == 'ok':
                vio.append({'mech': 'exception-swallowed', 'what': f'native code raises {exp[1]} but the build succeeded; {where}'})
                break
            names = util.exc_names(got[1])
            if lib.err_kind(got[1]) != 'EvalError' or exp[1] not in names:
                vio.append({'mech': 'wrong-exception', 'what': f'native code raises {exp[1]}; the node raises chain {names}: {util.short(str(got[1]), 200)}; {where}'})
                break
        if case['other'] and bi == 0:
            # an unrelated build in between (same process): must not influence the next build of the history
            lib.outcome(lambda: Config.build(build_text({'code': case['other'], 'kind': 'multi', 'spelling': 'eval', 'key': case['key']}, b), raw_yaml=True,
                                             eval_ctx=EvalContext(eval_symbols=symbols(b['sym']))))
            feats.append('interleaved_build')
    if not vio:
        for ef, gf, where in deferred:
            m = _call_both(ef, gf, where, 'after_the_whole_history')
            feats.append('callable_value_called_after_history')
            if m:
                vio.append(m)
                break
    res = {'status': 'violation' if vio else 'ok', 'nontrivial': bool(case['used']), 'feats': sorted(set(feats)), 'sig': util.sig([case['code'], case['builds']]),
           'evals': len(case['builds'])}
    if vio:
        res['violations'] = vio
    return res


def _call_both(ef, gf, where, when):
    """call the native callable and the one the node evaluated to with the same argument; both must agree (value or exception class)"""
    def call(f):
        try:
            return ('ok', f(3))
        except Exception as e:
            return ('err', type(e).__name__)
    e, g = call(ef), call(gf)
    if e[0] != g[0] or (util.typed(e[1]) != util.typed(g[1]) if e[0] == 'ok' else e[1] != g[1]):
        return {'mech': 'returned-callable-differs', 'what': f'the callable the node evaluated to, called {when} with 3, gives {g!r}; the same Python function over the values of its build gives {e!r}; {where}'}
    return None


def coverage_extra(merged, vios):
    return {'programs': merged['done'], 'disagreements_checked': len(vios),
            'explanation': 'every generated program is executed natively and through the node; disagreements_checked = disagreements found and written to replay files'}
