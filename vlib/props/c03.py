"""C03 - priorities: the highest-priority writer wins, the latest among equals.

History + model with unambiguous values: every leaf a stage writes is a unique
marker, so the value observed at a path names the stage that wrote it.  The
oracle is the winner table max(writers, key=(priority, stage)) - it does not
re-implement the merge algorithm.
"""
import random

from .. import gen, emit, lib, util, model
from ..emit import M, L, S

ID = 'C03'
LEVEL = 'exploration'
TECHNIQUE = 'runtime monitoring: unique-marker write histories checked against an independent winner table (priority, then stage order); metadata read from the surviving nodes'
LEVEL_TEXT = ('Held on the generated histories only: 2-6 stages write random sub-schemas of a common mapping skeleton (depth<=5); leaves are '
              'unique scalar markers or lists of them; !force/!weak sit on leaves or on enclosing containers at any height including the root; '
              'user metadata with per-writer keys and one shared key. The merged data must equal the winner table and no metadata key may be lost; plus one model-free relation: an untagged leaf added below a !weak container survives a later !weak scalar aimed at the container.')
LEVEL_NOTE = ('Trusted: winner table in model.py. Restrictions where the statement is silent: no priority tag below a differently tagged container of the '
              'same document, no shape conflict between stages at a path, no priority tags on elements inside lists, value of a metadata key '
              'written only by losing stages is not checked (presence is).')
RULE = ('random schema + 2-6 stages each writing a random sub-schema with an antichain of priority tags; non-trivial = some leaf path has >=2 writers '
        'with different priorities; distinct = hash of the texts')
ASSUMPTIONS = ['nested conflicting priority tags, shape conflicts and priority-tagged list elements are outside the checked domain']
TIERS = {'quick': {'cases': 6000, 'budget': 60}, 'thorough': {'cases': 100000, 'budget': 900}}

POOL = ['a', 'b', 'c', 'd', '_u', 'k1', 1, 2]


def gen_schema(rng, depth, top=True):
    if not top and (depth <= 0 or rng.random() < 0.4):
        return None          # leaf slot
    n = rng.randrange(1, 4)
    keys = rng.sample(POOL, n)
    return {k: gen_schema(rng, depth - 1, False) for k in keys}


def gen_stage(rng, schema, stage, mk, p_keep, seen=None, path=()):
    seen = {} if seen is None else seen
    items = []
    for k, sub in schema.items():
        if rng.random() > p_keep:
            continue
        if sub is None:
            r = rng.random()
            prev = seen.get(path + (k,))
            if prev is not None and rng.random() < 0.25:
                leaf = S(prev, style='dq') if isinstance(prev, str) else S(prev)        # a writer restating a value written before (with its own priority)
            elif r < 0.65:
                leaf = gen.scalar_node(rng, mk.next(rng))
            elif r < 0.78:
                # falsy winners must survive too; equal small values written side by side are different leaves all the same
                leaf = gen.scalar_node(rng, rng.choice([0, '', False, None, 0.0, 1, 'same', None, 1]))
            else:
                leaf = L([gen.scalar_node(rng, mk.next(rng)) for _ in range(rng.randrange(0, 4))])
            if leaf['t'] == 'sc':
                seen[path + (k,)] = leaf['v']
            items.append([k, leaf])
        else:
            items.append([k, gen_stage(rng, sub, stage, mk, p_keep, seen, path + (k,))])
    rng.shuffle(items)
    return M(items)


def place_prio(rng, n, p, stage, is_root=True):
    """antichain of priority tags + metadata anywhere (metadata does not nest-conflict)"""
    if rng.random() < 0.35:
        md = {f'w{stage}': f'm{stage}'}
        if rng.random() < 0.6:
            md['sh'] = f's{stage}'
        n['md'] = md
        n['mdsyn'] = rng.choice(['hex', 'brace'])
    if rng.random() < (p * 0.5 if is_root else p):
        n['prio'] = rng.choice([1, -1])
        if n.get('md') is None and rng.random() < 0.2:
            n['force_md'] = True
            n['mdsyn'] = rng.choice(['hex', 'brace'])
        if rng.random() < 0.7:
            return                  # mostly nothing tagged below a tagged node; when something is, the outer tag wins
    if n['t'] == 'map':
        for _, c in n['items']:
            place_prio(rng, c, p, stage, False)


def _md_below(n, stage):
    # metadata may sit below tagged nodes too
    pass


def gen_case(rng, tier):
    schema = gen_schema(rng, rng.choice([2, 3, 4, 5]))
    nst = rng.choice([2, 2, 3, 3, 4, 5, 6])
    mk = gen.Marker()
    docs = []
    seen = {}
    for i in range(nst):
        d = gen_stage(rng, schema, i, mk, rng.choice([0.5, 0.7, 0.9]), seen)
        place_prio(rng, d, rng.choice([0.15, 0.3, 0.5]), i)
        docs.append(d)
    if rng.random() < 0.15 and len(docs) >= 2:
        # equal plain values side by side below a tagged container; a later, outranked writer of ONE of them brings metadata along
        v = rng.choice([1, None, 'same', True, 0])
        pr = rng.choice([1, 1, 0])
        tw = M([['p', S(v) if v is not None else S(None, nf='')], ['q', S(v) if v is not None else S(None, nf='')], ['r', S(2)]])
        if pr:
            tw['prio'] = pr
        else:
            tw['md'] = {'w0': 'm0'}
            tw['mdsyn'] = 'hex'
        docs[0]['items'].append(['tw', tw])
        late = S(99, prio=-1 if not pr else None, md={f'w{len(docs) - 1}': f'm{len(docs) - 1}'}, mdsyn='hex')
        docs[-1]['items'].append(['tw', M([['p', late]])])
    style = rng.choice(['flow', 'block'])
    seed = rng.randrange(1 << 30)
    r2 = random.Random(seed)
    case = {'docs': docs, 'texts': [emit.emit(d, style, flow_pred=lambda n: r2.random() < 0.3) for d in docs]}
    if len(docs) >= 3 and rng.random() < 0.08 and not any(d.get('prio') for d in docs):
        # a container first written below a !weak tag absorbs an untagged writer (a new key) in a later stage; a still later !weak scalar aimed at
        # the container itself is weaker than that untagged writer: the untagged leaf stays (round 9, C03-i).  Only this one consequence of the
        # statement is asserted (what becomes of the container's weak entries is a shape conflict the statement is silent about), on copies of the
        # documents, so that the winner table of the main check is not involved.
        i, j, k = sorted(rng.sample(range(len(docs)), 3))
        import copy
        d2 = copy.deepcopy(docs)
        leaf = mk.next(rng, 's')
        d2[i]['items'].append(['sc9', M([['x', S(mk.next(rng, 's'))]], prio=-1)])
        d2[j]['items'].append(['sc9', M([['y', S(leaf)]])])
        d2[k]['items'].append(['sc9', S(mk.next(rng, 's'), prio=-1)])
        case['anc'] = {'texts': [emit.emit(d, 'block') for d in d2], 'leaf': leaf, 'stages': [i, j, k]}
    return case


def expected(docs):
    ws = model.writers(docs)
    exp = {}
    for path in sorted(ws, key=len):
        kinds = {w[0] for w in ws[path]}
        if path == ():
            continue
        cur = exp
        for c in path[:-1]:
            cur = cur[c]
        if kinds == {'map'}:
            cur[path[-1]] = {}
        else:
            cur[path[-1]] = model.winner(ws[path])[3]
    return exp, ws


def run(case):
    docs, texts = case['docs'], case['texts']
    exp, ws = expected(docs)
    contested = sum(1 for p, w in ws.items() if len({x[1] for x in w}) > 1 and len(w) > 1)
    feats = ['stages=%d' % len(docs)]
    if contested:
        feats.append('contested_paths')
    if any(d.get('prio') for d in docs):
        feats.append('root_tag')
    if any(n.get('prio') and n['t'] == 'map' and p for d in docs for p, n in emit.walk(d)):
        feats.append('container_tag')
    if any(n.get('prio') and n['t'] == 'seq' for d in docs for p, n in emit.walk(d)):
        feats.append('list_leaf_tag')
    depth = max((len(p) for p in ws), default=0)
    feats.append('depth=%d' % min(depth, 5))
    vio = []
    o = lib.outcome(lambda: lib.merged(texts))
    if o[0] == 'err':
        vio.append({'mech': 'build-fails', 'what': f'winner table is defined but build {lib.describe(o)}; texts={texts!r}'})
    else:
        tree = o[1]
        from awesomeyaml.config import Config
        e = lib.outcome(lambda: Config(tree))
        if e[0] == 'err':
            vio.append({'mech': 'build-fails', 'what': f'evaluation {lib.describe(e)}; texts={texts!r}'})
        else:
            got = c05plain(e[1])
            if util.typed(got) != util.typed(exp):
                bad = _first_diff(got, exp, ws)
                vio.append({'mech': 'wrong-winner', 'what': f'{bad}; merged={util.short(got, 300)} expected={util.short(exp, 300)}; texts={texts!r}'})
            else:
                # metadata of the surviving nodes
                for path, w in ws.items():
                    try:
                        node = tree if not path else tree.ayns.get_node(list(path))
                    except Exception as ex:
                        vio.append({'mech': 'node-unreachable', 'what': f'path {path!r} not reachable in merged tree: {ex!r}'})
                        continue
                    have = dict(node.ayns.metadata)
                    allkeys = set()
                    for x in w:
                        allkeys |= set(x[4])
                    lost = allkeys - set(have)
                    if lost:
                        vio.append({'mech': 'metadata-key-lost', 'what': f'metadata keys {sorted(lost)} written at {path!r} are gone; node has {have}; texts={texts!r}'})
                        break
                    foreign = set(have) - allkeys
                    if foreign and _shared_scalar(tree, node, path, ws, foreign):
                        # known finding (pinned by the repository's own test suite, see DESIGN 7.3): equal plain scalars that are one
                        # object in the interpreter become one node, so the keys written at the other path show up here too
                        vio.append({'mech': KNOWN_SHARED, 'what': f'the node at {path!r} is the same object as the node at another path holding an equal plain value, and carries that path\'s metadata keys {sorted(foreign)}; texts={texts!r}'})
                        continue
                    if foreign:
                        vio.append({'mech': 'metadata-key-from-another-path', 'what': f'the node at {path!r} carries metadata keys {sorted(foreign)} that no writer of this path wrote (writers wrote {sorted(allkeys)}); node has {have}; texts={texts!r}'})
                        break
                    win = model.winner(w)
                    wrong = {k: (have.get(k), v) for k, v in win[4].items() if have.get(k) != v}
                    if wrong:
                        vio.append({'mech': 'metadata-loser-wins', 'what': f'at {path!r} the winning stage {win[2]} wrote {win[4]} but node has {have}; texts={texts!r}'})
                        break
                    # "combined under the same rule": key by key, also for keys the overall winner did not write
                    for k in sorted(allkeys):
                        kw = model.winner([x for x in w if k in x[4]])
                        if have.get(k) != kw[4][k]:
                            vio.append({'mech': 'metadata-key-not-from-its-winning-writer', 'what': f'at {path!r} metadata key {k!r}: writers (prio, stage, value) = {[(x[1], x[2], x[4][k]) for x in w if k in x[4]]}, the rule gives {kw[4][k]!r} (stage {kw[2]}) but the node has {have.get(k)!r}; texts={texts!r}'})
                            break
                        if kw is not win:
                            feats.append('metadata_key_decided_among_losers')
                    if vio:
                        break
                    if allkeys:
                        feats.append('metadata_checked')
    if case.get('anc'):
        feats.append('weak_scalar_over_container_with_untagged_leaf')
        a = case['anc']
        from awesomeyaml.config import Config as _C
        o2 = lib.outcome(lambda: c05plain(_C(lib.merged(a['texts']))))
        if o2[0] == 'err':
            vio.append({'mech': 'build-fails', 'what': f'build {lib.describe(o2)}; texts={a["texts"]!r}'})
        else:
            sc = o2[1].get('sc9')
            if not (isinstance(sc, dict) and sc.get('y') == a['leaf']):
                vio.append({'mech': 'weaker-ancestor-writer-erases-untagged-leaf', 'what': f'untagged leaf sc9.y={a["leaf"]!r} (stage {a["stages"][1]}) erased by the later !weak '
                            f'scalar written at sc9 (stage {a["stages"][2]}): sc9={util.short(sc, 200)}; texts={a["texts"]!r}'})
    res = {'status': 'violation' if vio else 'ok', 'nontrivial': contested > 0, 'feats': feats, 'sig': util.sig(texts)}
    if vio:
        res['violations'] = vio
    return res


KNOWN_SHARED = 'equal-plain-scalars-below-one-container-are-one-node'


def _shared_scalar(tree, node, path, ws, foreign):
    """mechanism test for the known finding: the very node object sits at other paths as well, is a scalar, and every foreign key was written there"""
    from awesomeyaml.nodes.composed import ComposedNode
    if isinstance(node, ComposedNode):
        return False
    theirs = set()
    for p2, w2 in ws.items():
        if p2 == path or not p2:
            continue
        try:
            other = tree.ayns.get_node(list(p2))
        except Exception:
            continue
        if other is node:
            for x in w2:
                theirs |= set(x[4])
    return bool(theirs) and foreign <= theirs


def c05plain(v):
    if isinstance(v, dict):
        return {k: c05plain(x) for k, x in v.items()}
    if isinstance(v, list):
        return [c05plain(x) for x in v]
    return v


def _first_diff(got, exp, ws):
    for path in sorted(ws, key=len):
        if not path or {w[0] for w in ws[path]} == {'map'}:
            continue
        g, e = got, exp
        try:
            for c in path:
                g = g[c]
                e = e[c]
        except (KeyError, IndexError, TypeError):
            return f'path {path!r} missing from the merged config (writers: {[(w[1], w[2]) for w in ws[path]]})'
        if util.typed(g) != util.typed(e):
            return (f'at {path!r} merged value is {g!r} but the winner among (prio, stage, value) '
                    f'{[(w[1], w[2], w[3]) for w in ws[path]]} is {e!r}')
    return 'structures differ'
