"""C18 - dump then parse gives a tree that merges and evaluates the same.

Metamorphic monitor, no model: d = parse(T), T1 = dump(d), d' = parse(T1),
T2 = dump(d').  Verdict: T2 == T1, same user metadata at every path, and the
same outcome (merged view, evaluated data or error class) when d and d' are
substituted into merge sequences that probe the flags of the document.
"""
import copy

from .. import gen, emit, lib, util, view
from ..emit import S
from . import c19

ID = 'C18'
LEVEL = 'exploration'
TECHNIQUE = 'runtime monitoring: metamorphic round trip (dump/parse/dump) with text fix-point, per-path metadata view and behavioural equivalence in probing merge contexts'
LEVEL_TEXT = ('Held on the generated documents only: documents over the full tag vocabulary (every tag x node kind, flags nested inside each other, priorities on null and '
              'empty containers, metadata in both syntaxes, multi-line and quote-laden strings under tags, all dynamic/structural node kinds) are dumped and re-parsed; '
              'original and re-parsed document are substituted into merge sequences derived from the document itself (older/newer writers of the same paths, '
              'with priorities and deletion) and must give the same merged view and evaluated config or the same error class; dump must be a fix-point.')
LEVEL_NOTE = ('Trusted: view.tree_view and the substitution harness. A flag that is elided because it is implied anyway is NOT a violation: only behaviour, metadata and the '
              'text fix-point are judged.')
RULE = ('seeded documents x probing contexts (0-2 documents before, 0-2 after, derived from the document skeleton); non-trivial = the document carries a tag on a container or a '
        'special node; distinct = hash of the text')
ASSUMPTIONS = ['contexts are generated from the document skeleton; flags never probed by any context can hide a lost flag']
TIERS = {'quick': {'cases': 2500, 'budget': 60}, 'thorough': {'cases': 80000, 'budget': 900}}
POOL = ['a', 'b', 'c', 'd', '_u']


def gen_case(rng, tier):
    buildable = rng.random() < 0.6
    doc = gen.rand_doc(rng, rng.choice([2, 3, 4]), hostile=rng.random() < 0.4, pool_s=POOL, kinds=('s', 's', 's', 'i'))
    doc = gen.place_flags(rng, doc, p=rng.choice([0.2, 0.35, 0.5]), notnew=True)
    if rng.random() < 0.7:
        doc = gen.decorate_specials(rng, doc, gen.BUILDABLE_KINDS if buildable else gen.STATIC_KINDS, p=rng.choice([0.15, 0.3]))
    if rng.random() < 0.15:
        # an explicit "this is safe" on some node (it matters - and has to be written - when the source itself is not)
        cands = [n for _, n in emit.walk(doc) if n['t'] in ('sc', 'map', 'seq') and not n.get('unsafe') and not n.get('vdel')]
        if cands:
            n = rng.choice(cands)
            n['md'] = dict(n.get('md') or {}, safe=True)
            if rng.random() < 0.5:
                n['md']['note'] = 1
            n.setdefault('mdsyn', rng.choice(['hex', 'brace']))
    if rng.random() < 0.2:
        # several value-less entries inside one tagged container (the library shares one null node among them: the same node object is
        # written more than once), or one tagged value-less node reached through an anchor and an alias
        conts = [n for _, n in emit.walk(doc) if n['t'] in ('map', 'seq')]
        c = rng.choice(conts)
        k = rng.choice([2, 2, 3])
        fill = [S(None, nf=rng.choice(['', '', '~', 'null'])) for _ in range(k)]
        if c['t'] == 'map':
            c['items'] += [[f'nv{i}', f] for i, f in enumerate(fill)]
        else:
            c['items'] += fill
        if not emit.has_flags(c):
            c[rng.choice(['del', 'prio'])] = rng.choice([True, False]) if rng.random() < 0.5 else 1
            if c.get('prio') is True or c.get('prio') is False:
                c['prio'] = 1
    skeleton = emit.strip_flags(c19._despecial(doc))
    ctxs = []
    for _ in range(3):
        before, after = [], []
        for _ in range(rng.randrange(0, 3)):
            d = gen.mutate_doc(rng, skeleton, 3, pool_s=POOL, hostile=False, kinds=('s',)) if rng.random() < 0.8 else copy.deepcopy(skeleton)
            before.append(emit.emit(gen.place_flags(rng, d, p=0.2, vocab=('prio', 'del')), 'flow'))
        for _ in range(rng.randrange(0, 3)):
            d = gen.mutate_doc(rng, skeleton, 3, pool_s=POOL, hostile=False, kinds=('s',))
            after.append(emit.emit(gen.place_flags(rng, d, p=0.2, vocab=('prio', 'del', 'new'), notnew=True), 'flow'))
        ctxs.append([before, after])
    ctxs[0] = [[], []]
    # where the original text "comes from" and under which name its dump is read back (a snapshot written elsewhere keeps denoting
    # the same locations: !path:file / !path:parent are relative to the file the node was written in)
    F1, F2 = '/verif_nowhere/proj/conf/orig.yaml', '/verif_nowhere/runs/0001/snapshot.yaml'
    fn = rng.choice([(None, None), (None, None), (F1, F1), (F1, F2), (F1, F2), (F1, None)])
    return {'text': emit.emit(doc, rng.choice(['flow', 'block'])), 'ctxs': ctxs, 'safe': rng.random() < 0.85, 'fn': list(fn)}


def parse1(text, safe=True, filename=None):
    from awesomeyaml.builder import Builder
    b = Builder()
    b.add_source(text, raw_yaml=True, safe=safe, **({'filename': filename} if filename else {}))
    if len(b.stages) != 1:
        raise ValueError(f'{len(b.stages)} documents')
    return b.stages[0]


def md_view(tree):
    out = {}
    from awesomeyaml.nodes.composed import ComposedNode
    out[()] = util.typed(dict(tree.ayns.metadata))
    if isinstance(tree, ComposedNode):
        for p, n in tree.ayns.nodes_with_paths():
            out[tuple(view.key_native(c) for c in p)] = util.typed(dict(n.ayns.metadata))
    return out


def behaviour(ctx, tree):
    # node kinds are not behaviour (an f-string node is written as the !eval node it is equivalent to)
    return c19.behaviour({'before': ctx[0], 'after': ctx[1]}, tree, kinds=False)


def run(case):
    from awesomeyaml import yaml as ayy
    T, safe = case['text'], case['safe']
    f1, f2 = case.get('fn') or (None, None)
    o = lib.outcome(parse1, T, safe, f1)
    if o[0] == 'err':
        return {'status': 'skip', 'feats': ['unparsable']}
    d = o[1]
    feats = ['filenames_' + ('none' if not f1 and not f2 else 'same' if f1 == f2 else 'orig_only' if not f2 else 'reparse_only' if not f1 else 'different')]
    vio = []
    t1 = lib.outcome(ayy.dump, d)
    txt = f'text={T!r}'
    if t1[0] == 'err':
        vio.append({'mech': classify_dump_error(T, t1[1]), 'what': f'dump raises {type(t1[1]).__name__}: {util.short(str(t1[1]), 200)}; {txt}'})
    else:
        T1 = t1[1]
        o2 = lib.outcome(parse1, T1, safe, f2)
        if o2[0] == 'err':
            vio.append({'mech': 'dumped-text-unparsable', 'what': f'dump produced {T1!r} which does not parse: {lib.describe(o2)}; {txt}'})
        else:
            d2 = o2[1]
            t2 = lib.outcome(ayy.dump, d2)
            if t2[0] == 'err' or t2[1] != T1:
                vio.append({'mech': 'dump-not-a-fixpoint', 'what': f'dump(parse(dump(d))) = {t2[1] if t2[0] == "ok" else t2[1]!r} differs from dump(d) = {T1!r}; {txt}'})
            m1, m2 = md_view(parse1(T, safe, f1)), md_view(d2)
            if m1 != m2:
                bad = [p for p in set(m1) | set(m2) if m1.get(p) != m2.get(p)]
                vio.append({'mech': 'metadata-differs', 'what': f'user metadata at {bad[0]!r}: original {m1.get(bad[0])!r}, re-parsed {m2.get(bad[0])!r}; dumped={T1!r}; {txt}'})
            for ctx in case['ctxs']:
                a = behaviour(ctx, parse1(T, safe, f1))
                b = behaviour(ctx, parse1(T1, safe, f2))
                feats.append('ctx_' + a[0])
                if a != b:
                    vio.append({'mech': 'behaves-differently', 'what': f'in context before={ctx[0]!r} after={ctx[1]!r}: original -> {util.short(_nomv(a), 300)}; re-parsed -> {util.short(_nomv(b), 300)}; dumped={T1!r}; {txt}'})
                    break
    if vio and f1 != f2 and run(dict(case, fn=[f1, f1])).get('status') != 'violation':
        pass            # reading the dump back under the original name is fine: only the *other* name makes the difference, nothing
                        # the recorded finding (flag elision) could explain
    elif vio:
        vio = attribute(vio, T, safe, t1)
    nt = any(tag in T for tag in ('!call', '!bind', '!xref', '!ref', '!eval', '!path', '!include', '!force', '!weak', '!del', '!merge', '!metadata', '!new', '!notnew', '!unsafe'))
    res = {'status': 'violation' if vio else 'ok', 'nontrivial': nt, 'feats': sorted(set(feats)), 'sig': util.sig(T), 'evals': 1 + 2 * len(case['ctxs'])}
    if vio:
        res['violations'] = vio[:2]
    return res


def attribute(vio, T, safe, t1):
    """replace generic labels by known mechanisms when, and only when, every structural difference between the
    original and the re-parsed tree is explained by them"""
    if t1[0] != 'ok':
        return vio
    o2 = lib.outcome(parse1, t1[1], safe)
    if o2[0] == 'err':
        m = _NO_MD_SYNTAX.search(str(o2[1]))
        if m and (':' in m.group(0)[m.group(0).index('!'):] ):
            return [dict(v, mech='flags-on-node-kind-without-metadata-syntax') for v in vio[:1]]
        return vio
    diffs = diff_paths(sview(parse1(T, safe)), sview(o2[1]))
    if not diffs:
        return vio
    mechs = explain(diffs)
    if not mechs:
        return vio
    return [dict(vio[0], mech=m) for m in sorted(mechs)]


def _nomv(b):
    """behaviour tuple without the bulky merged view"""
    if b[0] == 'ok':
        return ('ok', b[2], b[3])
    if b[0] == 'eval-err':
        return b[0], b[2], b[3]
    return b


def classify_dump_error(T, e):
    return 'dump-raises'


# ------------------------------------------------------------------ attribution of round-trip differences
import re
_NO_MD_SYNTAX = re.compile(r"could not determine a constructor for the tag '!(include|import|append|prev|fstr|rec|bind|call):?")
FLAGS = ('prio', 'del', 'xdel', 'new', 'xnew', 'safe', 'xsafe', 'attrs')


def sview(t):
    return view.tree_view(t, flags=FLAGS, md=True)


def diff_paths(a, b, path=()):
    """[(path, dict_a, dict_b)] for every node whose own fields differ; a missing counterpart is (path, d, None)"""
    out = []
    da, db = dict(a), dict(b)
    own_a = {k: v for k, v in da.items() if k != 'ch'}
    own_b = {k: v for k, v in db.items() if k != 'ch'}
    if own_a != own_b:
        out.append((path, own_a, own_b))
    ca, cb = dict(da.get('ch') or ()), dict(db.get('ch') or ())
    for k in list(ca) + [k for k in cb if k not in ca]:
        if k in ca and k in cb:
            out += diff_paths(ca[k], cb[k], path + (k,))
        else:
            out.append((path + (k,), dict(ca[k]) if k in ca else None, dict(cb[k]) if k in cb else None))
    return out


def explain(diffs):
    """mechanism of every differing node, or None for an unexplained one"""
    mechs = set()
    elided_roots = []
    for path, a, b in sorted(diffs, key=lambda x: len(x[0])):
        if a is None or b is None:
            return None
        keys = {k for k in set(a) | set(b) if a.get(k) != b.get(k)}
        if 'kind' in keys and a['kind'] == 'FStrNode' and b['kind'] == 'EvalNode':
            keys -= {'kind', 'attrs'}      # equivalent by construction, not a difference
            if not keys:
                continue
        if keys <= {'xdel', 'del', 'xnew', 'new', 'xsafe'}:
            default_del = a['kind'] in ('ConfigList', 'CallNode', 'BindNode', 'AppendNode', 'ExtendNode', 'PathNode', 'ConfigTuple')
            # explicit flags the dumper left out (implied by the parent, or equal to the type default)
            x_ok = all(a.get(k) is not None and b.get(k) is None for k in keys & {'xdel', 'xnew'}) and \
                (('xsafe' not in keys) or (a.get('xsafe') in (False, True) and b.get('xsafe') is None))     # (the effective 'safe' is not among the keys allowed to differ)
            below = any(path[:len(r)] == r for r in elided_roots)
            eff_ok = True
            if 'del' in keys:      # the effective flag changes only through inheritance from an elided ancestor, or because the node's own default-valued flag went missing
                eff_ok &= below or ('xdel' in keys and bool(a['xdel']) == default_del)
            if 'new' in keys:      # a node's own flag never governs itself: only inheritance can change it
                eff_ok &= below
            if x_ok and eff_ok:
                if keys & {'xdel', 'xnew', 'xsafe'}:
                    elided_roots.append(path)
                mechs.add('explicit-flag-implied-by-parent-or-default-elided')
                continue
        return None
    return mechs
