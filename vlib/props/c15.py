"""C15 - merge laws: deterministic, idempotent, empty-neutral, order- and flag-neutral.

Pure metamorphic monitor over real builds: one generated sequence, many related
sequences, results compared as typed data (key order of mappings ignored, list
order kept).
"""
import os
import sys
import copy
import json
import random
import subprocess

from .. import gen, emit, lib, util, env
from ..emit import M
from . import c05

ID = 'C15'
LEVEL = 'exploration'
TECHNIQUE = 'runtime monitoring: metamorphic relations over real builds (rebuild, fresh process with another hash seed, repeat last, insert {}, permute keys, mark !unsafe / !new)'
LEVEL_TEXT = ('Held on the generated sequences only: for every 1-5 stage sequence over priorities, !del and !merge the relations are checked at every '
              'insertion position, for >=3 key permutations, and for every single node (small documents) or random nodes (large ones) as the !unsafe/!new site; '
              'a sample of cases is rebuilt in a fresh interpreter with a different PYTHONHASHSEED. No model is involved.')
LEVEL_NOTE = ('Trusted: the harness transformations. The idempotence relation excludes the remove-this-key idiom (value-less / null !del, !del on an empty container), '
              'as the statement does. Priority tags on single list elements: checked strictly where nothing is renumbered (trailing lower-priority run on the newer scalar list), '
              'elsewhere repeat-last failures that vanish once the element tags are taken off are attributed to the recorded finding; delete tags on elements and tagged container elements are not generated.')
RULE = ('seeded sequences x relations; non-trivial = at least one priority/!del/!merge tag and two stages sharing a top-level key; distinct = hash of texts')
ASSUMPTIONS = ['remove-this-key idiom excluded from the repeat-last relation only']
TIERS = {'quick': {'cases': 1200, 'budget': 70}, 'thorough': {'cases': 40000, 'budget': 900}}
POOL = ['a', 'b', 'c', 'd', '_u']


def _has_remove_idiom(doc):
    for _, n in emit.walk(doc):
        if n.get('vdel'):
            return True
        if n.get('del') is True:
            if n['t'] in ('map', 'seq') and not n['items']:
                return True
            if n['t'] == 'sc' and n['v'] is None:
                return True
    return False


def _index_map_corner(doc):
    """mappings that address list elements by index while deleting, or through negative (aliasing) indices:
    which indices survive is not specified, the baseline outcome itself is undefined there"""
    def rec(n, deleting):
        d = n.get('del') if n.get('del') is not None else deleting
        if n['t'] == 'map':
            ints = [k for k, _ in n['items'] if isinstance(k, int)]
            if ints and (d or min(ints) < 0):
                return True
            return any(rec(c, d) for _, c in n['items'])
        if n['t'] == 'seq':
            return any(rec(c, True if n.get('del') is None else n['del']) for c in n['items'])
        return False
    return rec(doc, False)


def _has_elem_prio(doc):
    """a list element - or something inside a list element - carrying a priority tag of its own (what decides which elements of
    the older list survive a deleting newer list, and so at which position they end up)"""
    return any(n['t'] == 'seq' and any(x.get('prio') is not None for c in n['items'] for _, x in emit.walk(c)) for _, n in emit.walk(doc))


def _strip_elem_prio(doc):
    d = copy.deepcopy(doc)
    for _, n in emit.walk(d):
        if n['t'] == 'seq':
            for c in n['items']:
                for _, x in emit.walk(c):
                    x.pop('prio', None)
    return d


def permute(rng, doc):
    d = copy.deepcopy(doc)

    def rec(n, deleting):
        dl = n.get('del') if n.get('del') is not None else deleting
        if n['t'] == 'map':
            # a mapping that addresses list elements by index is order-sensitive by nature when two keys can alias one element
            # (negative indices), or when it is deleting: which positions survive then - and where keys past the end are appended -
            # is not specified (the same corner as for repeat_last, see _index_map_corner): leave those alone
            ints = [k for k, _ in n['items'] if isinstance(k, int)]
            if not (ints and (dl or min(ints) < 0)):
                rng.shuffle(n['items'])
            for _, c in n['items']:
                rec(c, dl)
        elif n['t'] == 'seq':
            for c in n['items']:
                rec(c, True if n.get('del') is None else n['del'])
    rec(d, False)
    return d


def mark(doc, idx, flag):
    d = copy.deepcopy(doc)
    nodes = [n for _, n in emit.walk(d) if n['t'] != 'sp']
    n = nodes[idx % len(nodes)]
    if flag == 'unsafe':
        n['unsafe'] = True
    else:
        n['new'] = True
    if gen.md_needed(n) and not n.get('mdsyn'):
        n['mdsyn'] = 'hex'
    return d


def gen_case(rng, tier):
    nst = rng.choice([1, 2, 2, 3, 3, 4, 5])
    docs = gen.rand_sequence(rng, nst, rng.choice([2, 3, 4]), kinds=('s',), pool_s=POOL, hostile=False, marker=gen.Marker(), width=3)
    docs = [gen.place_flags(rng, d, p=rng.choice([0.15, 0.3, 0.45]), vocab=('prio', 'del'), on_seq_elems=False, combos=0.15) for d in docs]
    mixkind = rng.choice(['list_level', 'list_level', 'weak_suffix', 'weak_suffix', 'elem_any']) if rng.random() < 0.3 else None
    if rng.random() < 0.35 and mixkind != 'weak_suffix':
        # priority tags on the elements of lists of *scalars* (nested containers with tagged elements are the corner where the
        # baseline outcome itself is unspecified, see DESIGN.md C04/C15)
        for d in docs:
            for _, nd in emit.walk(d):
                if nd['t'] == 'seq' and nd['items'] and all(c['t'] == 'sc' for c in nd['items']):
                    for c in nd['items']:
                        if rng.random() < 0.3 and not emit.has_flags(c):
                            c['prio'] = rng.choice([1, -1, -1])
    if rng.random() < 0.03:
        # canonical shapes of the recorded finding
        k = rng.choice(POOL)
        docs = rng.choice([[M([[k, emit.L([emit.S(1009)])]]), M([[k, emit.L([emit.S(0, prio=-1)])]], **{'del': True})],
                           [M([[k, emit.L([emit.S(300), emit.S(301), emit.S(302, prio=1)])]]), M([[k, emit.L([emit.S(400), emit.S(401)])]])]])
    if rng.random() < 0.25 and len(docs) > 1:
        docs[-1] = gen.add_specials(rng, docs[-1], docs[:-1], p=0.2, kinds=('vdel',))
    forced_sites = []
    if rng.random() < 0.4:
        # a list that inherits !merge / !del from an ancestor two or more levels up and meets a longer older list:
        # flags handed down through untagged mappings are where flag-neutrality is most fragile
        from .c16 import put
        chain = [rng.choice(POOL) for _ in range(rng.choice([2, 3]))] + ['lst']
        old = emit.L([emit.S(100 + i) for i in range(rng.randrange(2, 5))])
        new = emit.L([emit.S(200 + i) for i in range(rng.randrange(1, 3))])
        if rng.random() < 0.3:
            new = emit.L([emit.M([['q', emit.S(7)]])])
            old = emit.L([emit.M([['r', emit.S(8)]]), emit.S(9)])
        d_old, d_new = emit.M([]), emit.M([])
        put(d_old, tuple(chain), old)
        put(d_new, tuple(chain), new)
        top = dict((k, v) for k, v in d_new['items'])[chain[0]]
        top['del'] = rng.choice([False, False, True])
        docs = [d_old] + docs + [d_new] if rng.random() < 0.5 else docs[:1] + [d_old] + docs[1:] + [d_new]
        # the mappings between the tagged ancestor and the list are the interesting marker sites
        idx = len(docs) - 1
        pos = {id(n): i for i, (_, n) in enumerate(emit.walk(docs[idx]))}
        cur = docs[idx]
        for c in chain[:-1]:
            cur = dict((k, v) for k, v in cur['items'])[c]
            forced_sites.append((idx, pos[id(cur)]))
    strict_elem = False
    if mixkind:
        # a scalar list meeting an older list of another length; which element competes with what - the element at the same index,
        # or the list when there is none - must not depend on how often the document is applied.  Priorities sit
        #   list_level:  on the lists (handed down to the elements; the statement's vocabulary)
        #   weak_suffix: on single elements of the newer list, lower priorities only as a trailing run, older list untagged, nothing
        #                deleting above: no element is renumbered before the lists are matched, the law is expected and checked strictly
        #   elem_any:    on arbitrary elements of either list (the recorded finding's region)
        from .c16 import put
        chain = tuple(rng.choice(POOL) for _ in range(rng.choice([1, 1, 2]))) + ('mix',)
        old = emit.L([emit.S(300 + i) for i in range(rng.randrange(0, 5))])
        new = emit.L([emit.S(400 + i) for i in range(rng.randrange(1, 6))])
        if mixkind == 'elem_any':
            for c in new['items'] + (old['items'] if rng.random() < 0.3 else []):
                if rng.random() < 0.4:
                    c['prio'] = rng.choice([-1, -1, 1])
        elif mixkind == 'weak_suffix':
            k = rng.randrange(1, len(new['items']) + 1)
            for c in new['items'][len(new['items']) - k:]:
                c['prio'] = -1
            for c in new['items'][:len(new['items']) - k]:
                if rng.random() < 0.25:
                    c['prio'] = 1
            strict_elem = True
        else:
            if rng.random() < 0.7:
                new['prio'] = rng.choice([-1, -1, 1])
            if rng.random() < 0.4:
                old['prio'] = rng.choice([-1, 1, 1])
            if rng.random() < 0.3:
                new['del'] = False
        d_old, d_new = emit.M([]), emit.M([])
        put(d_old, chain, old)
        put(d_new, chain, new)
        docs = [d_old] + docs + [d_new] if rng.random() < 0.5 and not strict_elem else [d_old, d_new]
        if strict_elem and rng.random() < 0.5:
            docs = [M([['z', emit.S(1)]])] + docs
    if rng.random() < 0.2:
        # a priority-tagged list (no tagged ancestor) holding untagged containers, met by a competing document: the priority reaches
        # the nested content whatever markers sit on the nested containers, the enclosing mappings or the document root
        from .c16 import put
        tl = rng.choice(POOL) + '_tl'
        pr = rng.choice([-1, -1, 1])
        inner = M([['units', emit.S(16)], ['sub', M([['a', emit.S(1)]])]])
        lst = emit.L([inner, emit.L([emit.S(1), emit.S(2)])] if rng.random() < 0.5 else [inner], prio=pr)
        d_a, d_b = M([[tl, lst]]), M([[tl, emit.L([M([['units', emit.S(64)], ['sub', M([['a', emit.S(2)]])]])])]])
        if rng.random() < 0.6:
            d_b['prio'] = pr
        docs = [d_a] + docs + [d_b] if rng.random() < 0.4 else [d_a, d_b]
        pos = {id(n): i for i, (_, n) in enumerate(emit.walk(docs[0]))}
        forced_sites += [(0, pos[id(inner)]), (0, pos[id(inner['items'][1][1])]), (0, 0)]
    style = rng.choice(['flow', 'block'])
    E = lambda d: emit.emit(d, style)
    base = [E(d) for d in docs]
    rel = {}
    alt = {}
    if not _has_remove_idiom(docs[-1]) and not _index_map_corner(docs[-1]):
        rel['repeat_last'] = [base + [base[-1]]]
        if any(_has_elem_prio(d) for d in docs) and not strict_elem:
            # delta for the recorded finding: the same relation with the priority tags taken off the list elements
            st = [E(_strip_elem_prio(d)) for d in docs]
            alt['repeat_last'] = [st, st + [st[-1]]]
    rel['insert_empty'] = [base[:i] + ['{}\n'] + base[i:] for i in range(len(base) + 1)]
    rel['permute_keys'] = [[E(permute(rng, d)) for d in docs] for _ in range(3)]
    sites = []
    for di, d in enumerate(docs):
        n = sum(1 for _ in emit.walk(d))
        idxs = range(n) if n <= 6 else rng.sample(range(n), 4)
        sites += [(di, i) for i in idxs]
    if len(sites) > 10:
        sites = rng.sample(sites, 10)
    sites = forced_sites + [x for x in sites if x not in forced_sites]
    for flag in ('unsafe', 'new'):
        rel['mark_' + flag] = [[E(mark(d, i, flag)) if k == di else base[k] for k, d in enumerate(docs)] for di, i in sites]
    ntags = sum(1 for d in docs for _, x in emit.walk(d) if emit.has_flags(x))
    tops = [set(k for k, _ in d['items']) for d in docs]
    shared = any(tops[i] & tops[j] for i in range(len(tops)) for j in range(i))
    return {'base': base, 'rel': rel, 'alt': alt, 'fresh': rng.random() < (0.04 if tier == 'quick' else 0.02), 'nt': bool(ntags and shared)}


def observe(texts):
    o = lib.outcome(lambda: lib.build(texts))
    if o[0] == 'err':
        return ('err', lib.err_kind(o[1]))
    return ('ok', util.typed(c05._plain(o[1])))


_FRESH = ("import sys, json; sys.path.insert(0, sys.argv[1]); sys.path.insert(1, sys.argv[2]); from vlib import env; env.setup(); "
          "from vlib.props import c15; print(repr(c15.observe(json.loads(sys.stdin.read()))))")


def run(case):
    base = observe(case['base'])
    feats = ['base_' + base[0], 'stages=%d' % len(case['base'])]
    vio = []
    evals = 1
    again = observe(case['base'])
    evals += 1
    if again != base:
        vio.append({'mech': 'nondeterministic-same-process', 'what': f'two builds of the same sources differ: texts={case["base"]!r}'})
    if case.get('fresh'):
        e = env.child_env()
        e['PYTHONHASHSEED'] = '12345'
        p = subprocess.run([sys.executable, '-c', _FRESH, env.REPO, env.VERIF], input=json.dumps(case['base']), env=e,
                           capture_output=True, text=True, timeout=120)
        feats.append('fresh_process')
        evals += 1
        if p.returncode != 0:
            return {'status': 'inconclusive', 'why': 'fresh-process child failed: ' + p.stderr[-500:]}
        if p.stdout.strip().splitlines()[-1] != repr(base):
            vio.append({'mech': 'nondeterministic-across-processes', 'what': f'fresh interpreter with another PYTHONHASHSEED builds something else: texts={case["base"]!r}'})
    for name, variants in case['rel'].items():
        for v in variants:
            got = observe(v)
            evals += 1
            feats.append(name)
            if got != base:
                vio.append({'mech': classify(name, case), 'what': f'relation {name} fails: base texts={case["base"]!r} -> {_short(base)}; related texts={v!r} -> {_short(got)}'})
                break
    res = {'status': 'violation' if vio else 'ok', 'nontrivial': case['nt'], 'feats': sorted(set(feats)), 'evals': evals, 'sig': util.sig(case['base'])}
    if vio:
        res['violations'] = vio
    return res


KNOWN_ELEM = 'list-elements-with-own-priority-compete-after-index-shift'


def classify(name, case):
    """a repeat-last failure is attributed to the recorded finding only if some document has a list element with a priority tag of
    its own AND the same relation holds once those element tags are taken off (everything else in the sequence unchanged)"""
    a = case.get('alt', {}).get(name)
    if name == 'repeat_last' and a and observe(a[0]) == observe(a[1]):
        return KNOWN_ELEM
    return name


def _short(o):
    return util.short(repr(o), 500)
