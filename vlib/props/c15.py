"""C15 - merge laws: deterministic, idempotent, empty-neutral, order- and flag-neutral.

Pure metamorphic monitor over real builds: one generated sequence, many related
sequences, results compared as typed data (key order of mappings ignored, list
order kept).
"""
import os
import sys
import copy
import json
import random
import subprocess

from .. import gen, emit, lib, util, env
from ..emit import M
from . import c05

ID = 'C15'
LEVEL = 'exploration'
TECHNIQUE = 'runtime monitoring: metamorphic relations over real builds (rebuild, fresh process with another hash seed, repeat last, insert {}, permute keys, mark !unsafe / !new)'
LEVEL_TEXT = ('Held on the generated sequences only: for every 1-5 stage sequence over priorities, !del and !merge the relations are checked at every '
              'insertion position, for >=3 key permutations, and for every single node (small documents) or random nodes (large ones) as the !unsafe/!new site; '
              'a sample of cases is rebuilt in a fresh interpreter with a different PYTHONHASHSEED. No model is involved.')
LEVEL_NOTE = ('Trusted: the harness transformations. The idempotence relation excludes the remove-this-key idiom (value-less !del, !del on an empty container or falsy scalar), '
              'as the statement does. List elements carry no priority/delete tags of their own (baseline outcome unspecified there).')
RULE = ('seeded sequences x relations; non-trivial = at least one priority/!del/!merge tag and two stages sharing a top-level key; distinct = hash of texts')
ASSUMPTIONS = ['remove-this-key idiom excluded from the repeat-last relation only']
TIERS = {'quick': {'cases': 1200, 'budget': 70}, 'thorough': {'cases': 40000, 'budget': 900}}
POOL = ['a', 'b', 'c', 'd', '_u']


def _has_remove_idiom(doc):
    for _, n in emit.walk(doc):
        if n.get('vdel'):
            return True
        if n.get('del') is True:
            if n['t'] in ('map', 'seq') and not n['items']:
                return True
            if n['t'] == 'sc' and not n['v']:
                return True
    return False


def _index_map_corner(doc):
    """mappings that address list elements by index while deleting, or through negative (aliasing) indices:
    which indices survive is not specified, the baseline outcome itself is undefined there"""
    def rec(n, deleting):
        d = n.get('del') if n.get('del') is not None else deleting
        if n['t'] == 'map':
            ints = [k for k, _ in n['items'] if isinstance(k, int)]
            if ints and (d or min(ints) < 0):
                return True
            return any(rec(c, d) for _, c in n['items'])
        if n['t'] == 'seq':
            return any(rec(c, True if n.get('del') is None else n['del']) for c in n['items'])
        return False
    return rec(doc, False)


def permute(rng, doc):
    d = copy.deepcopy(doc)
    for _, n in emit.walk(d):
        if n['t'] == 'map':
            # a mapping that addresses list elements by index is order-sensitive by nature when two keys can
            # alias one element (negative indices) or an element is removed (indices shift): leave those alone
            ints = [k for k, _ in n['items'] if isinstance(k, int)]
            if ints and (min(ints) < 0 or any(_has_remove_idiom(c) for _, c in n['items'])):
                continue
            rng.shuffle(n['items'])
    return d


def mark(doc, idx, flag):
    d = copy.deepcopy(doc)
    nodes = [n for _, n in emit.walk(d) if n['t'] != 'sp']
    n = nodes[idx % len(nodes)]
    if flag == 'unsafe':
        n['unsafe'] = True
    else:
        n['new'] = True
    if gen.md_needed(n) and not n.get('mdsyn'):
        n['mdsyn'] = 'hex'
    return d


def gen_case(rng, tier):
    nst = rng.choice([1, 2, 2, 3, 3, 4, 5])
    docs = gen.rand_sequence(rng, nst, rng.choice([2, 3, 4]), kinds=('s',), pool_s=POOL, hostile=False, marker=gen.Marker(), width=3)
    docs = [gen.place_flags(rng, d, p=rng.choice([0.15, 0.3, 0.45]), vocab=('prio', 'del'), on_seq_elems=False, combos=0.15) for d in docs]
    if rng.random() < 0.25 and len(docs) > 1:
        docs[-1] = gen.add_specials(rng, docs[-1], docs[:-1], p=0.2, kinds=('vdel',))
    forced_sites = []
    if rng.random() < 0.4:
        # a list that inherits !merge / !del from an ancestor two or more levels up and meets a longer older list:
        # flags handed down through untagged mappings are where flag-neutrality is most fragile
        from .c16 import put
        chain = [rng.choice(POOL) for _ in range(rng.choice([2, 3]))] + ['lst']
        old = emit.L([emit.S(100 + i) for i in range(rng.randrange(2, 5))])
        new = emit.L([emit.S(200 + i) for i in range(rng.randrange(1, 3))])
        if rng.random() < 0.3:
            new = emit.L([emit.M([['q', emit.S(7)]])])
            old = emit.L([emit.M([['r', emit.S(8)]]), emit.S(9)])
        d_old, d_new = emit.M([]), emit.M([])
        put(d_old, tuple(chain), old)
        put(d_new, tuple(chain), new)
        top = dict((k, v) for k, v in d_new['items'])[chain[0]]
        top['del'] = rng.choice([False, False, True])
        docs = [d_old] + docs + [d_new] if rng.random() < 0.5 else docs[:1] + [d_old] + docs[1:] + [d_new]
        # the mappings between the tagged ancestor and the list are the interesting marker sites
        idx = len(docs) - 1
        pos = {id(n): i for i, (_, n) in enumerate(emit.walk(docs[idx]))}
        cur = docs[idx]
        for c in chain[:-1]:
            cur = dict((k, v) for k, v in cur['items'])[c]
            forced_sites.append((idx, pos[id(cur)]))
    style = rng.choice(['flow', 'block'])
    E = lambda d: emit.emit(d, style)
    base = [E(d) for d in docs]
    rel = {}
    if not _has_remove_idiom(docs[-1]) and not _index_map_corner(docs[-1]):
        rel['repeat_last'] = [base + [base[-1]]]
    rel['insert_empty'] = [base[:i] + ['{}\n'] + base[i:] for i in range(len(base) + 1)]
    rel['permute_keys'] = [[E(permute(rng, d)) for d in docs] for _ in range(3)]
    sites = []
    for di, d in enumerate(docs):
        n = sum(1 for _ in emit.walk(d))
        idxs = range(n) if n <= 6 else rng.sample(range(n), 4)
        sites += [(di, i) for i in idxs]
    if len(sites) > 10:
        sites = rng.sample(sites, 10)
    sites = forced_sites + [x for x in sites if x not in forced_sites]
    for flag in ('unsafe', 'new'):
        rel['mark_' + flag] = [[E(mark(d, i, flag)) if k == di else base[k] for k, d in enumerate(docs)] for di, i in sites]
    ntags = sum(1 for d in docs for _, x in emit.walk(d) if emit.has_flags(x))
    tops = [set(k for k, _ in d['items']) for d in docs]
    shared = any(tops[i] & tops[j] for i in range(len(tops)) for j in range(i))
    return {'base': base, 'rel': rel, 'fresh': rng.random() < (0.04 if tier == 'quick' else 0.02), 'nt': bool(ntags and shared)}


def observe(texts):
    o = lib.outcome(lambda: lib.build(texts))
    if o[0] == 'err':
        return ('err', lib.err_kind(o[1]))
    return ('ok', util.typed(c05._plain(o[1])))


_FRESH = ("import sys, json; sys.path.insert(0, sys.argv[1]); sys.path.insert(1, sys.argv[2]); from vlib import env; env.setup(); "
          "from vlib.props import c15; print(repr(c15.observe(json.loads(sys.stdin.read()))))")


def run(case):
    base = observe(case['base'])
    feats = ['base_' + base[0], 'stages=%d' % len(case['base'])]
    vio = []
    evals = 1
    again = observe(case['base'])
    evals += 1
    if again != base:
        vio.append({'mech': 'nondeterministic-same-process', 'what': f'two builds of the same sources differ: texts={case["base"]!r}'})
    if case.get('fresh'):
        e = env.child_env()
        e['PYTHONHASHSEED'] = '12345'
        p = subprocess.run([sys.executable, '-c', _FRESH, env.REPO, env.VERIF], input=json.dumps(case['base']), env=e,
                           capture_output=True, text=True, timeout=120)
        feats.append('fresh_process')
        evals += 1
        if p.returncode != 0:
            return {'status': 'inconclusive', 'why': 'fresh-process child failed: ' + p.stderr[-500:]}
        if p.stdout.strip().splitlines()[-1] != repr(base):
            vio.append({'mech': 'nondeterministic-across-processes', 'what': f'fresh interpreter with another PYTHONHASHSEED builds something else: texts={case["base"]!r}'})
    for name, variants in case['rel'].items():
        for v in variants:
            got = observe(v)
            evals += 1
            feats.append(name)
            if got != base:
                vio.append({'mech': classify(name, case['base'], v), 'what': f'relation {name} fails: base texts={case["base"]!r} -> {_short(base)}; related texts={v!r} -> {_short(got)}'})
                break
    res = {'status': 'violation' if vio else 'ok', 'nontrivial': case['nt'], 'feats': sorted(set(feats)), 'evals': evals, 'sig': util.sig(case['base'])}
    if vio:
        res['violations'] = vio
    return res


def classify(name, base_texts, related_texts):
    return name


def _short(o):
    return util.short(repr(o), 500)
