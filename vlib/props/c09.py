"""C09 - cross-references alias their target, in any order, and always terminate.

History + model: a base tree whose leaves evaluate to non-interned objects plus
a random reference graph over its real paths.  The oracle walks the graph
(terminal path or bottom); expected: cfg[p] is cfg[T] for every reference,
EvalError for bottom.  Termination is decided on logical steps (M-budget on
EvalContext.get_node / evaluate_node), never on wall-clock time.
"""
import copy
import random

from .. import gen, emit, lib, util, monitors
from ..emit import M, L, S, SP

ID = 'C09'
LEVEL = 'exploration'
TECHNIQUE = 'runtime monitoring: identity (is) checks against a reference-graph oracle; sys.monitoring step budget on get_node/evaluate_node as the bounded-progress form of "never hangs"'
LEVEL_TEXT = ('Held on the generated graphs only: chains up to length 10, fan-in, forward and backward references, references placed at the top level, inside lists, mappings and '
              'identity-call arguments, across two sources, into containers that themselves hold references, plus injected dangling targets, self-references, k-cycles and '
              'container cycles. Every reference must be the very object at its terminal path; every bottom must surface as EvalError within a polynomial step budget.')
LEVEL_NOTE = ('Trusted: the graph walk in c09.py. A reference path never passes *through* another reference (no node exists at such a path in the merged tree). '
              'Budget = 100*(n+r)^2 + 10000 steps, >=100x the legitimate cost; container cycles may end in RecursionError wrapped as EvalError.')
RULE = 'seeded base tree + reference graph; non-trivial = at least two references of which one is a chain of length >=2 or a bottom; distinct = hash of texts'
ASSUMPTIONS = ['evaluation that needs more than the step budget would be misreported as non-terminating (budget >= 100x worst legitimate cost)']
TIERS = {'quick': {'cases': 3000, 'budget': 60}, 'thorough': {'cases': 100000, 'budget': 900}}
MIN_COUNTERS = {'monitored_steps': 1}
CASE_TIMEOUT = 60
_mon = {}
_counts = {'monitored_steps': 0, 'budget_exceeded': 0}


def init(tier):
    from awesomeyaml.eval_context import EvalContext
    from .c14 import _unwrap
    m = monitors.EvalMonitor({'evaluate_node': _unwrap(EvalContext.evaluate_node), 'get_node': EvalContext.get_node})
    m.start()
    _mon['m'] = m
    return None


def finish():
    return dict(_counts)


KNOWN_DEEP = 'long-chains-through-containers-hit-the-recursion-limit'


def gen_deep(rng):
    """an acyclic chain that passes through a container at every hop: k0: [!xref k1], k1: [!xref k2], ..., kn: [1]"""
    n = rng.choice([20, 40, 60, 120, 200])
    order = list(range(n))
    if rng.random() < 0.5:
        order.reverse()
    lines = [f'k{i}: [!xref "k{i + 1}"]' for i in order]
    lines.insert(rng.randrange(len(lines) + 1), f'k{n}: [1]')
    refs = [{'loc': (f'k{i}', 0), 'doc': 0, 'in_call': False, 'target': f'k{i + 1}'} for i in range(n)]
    return {'texts': ['\n'.join(lines) + '\n'], 'refs': refs, 'cycle': None, 'n_nodes': 3 * n + 3, 'two_sources': True, 'route': rng.choice(['config', 'ctx']), 'deep': n}


def gen_case(rng, tier):
    if rng.random() < 0.02:
        return gen_deep(rng)
    n_base = rng.randrange(2, 6)
    serial = [0]

    def leaf():
        serial[0] += 1
        r = rng.random()
        if r < 0.5:
            return S(f'val{serial[0]}', style='dq')
        if r < 0.7:
            return S(2 ** 40 + serial[0])
        return S(serial[0] + 0.25)

    def cont(d):
        r = rng.random()
        if r < 0.12:
            # terminals that evaluate to something falsy (fresh empty containers, results of targets returning [] / {} / None)
            serial[0] += 1
            return rng.choice([M([]), L([]), SP('call', func=f'verif_targets.empty{serial[0]}l', args=M([])),
                               SP('call', func=f'verif_targets.empty{serial[0]}d', args=M([])), S('', style='dq')])
        if d <= 0 or r < 0.3:
            return leaf()
        if r < 0.55:
            return M([[k, cont(d - 1)] for k in rng.sample(['a', 'b', 'c', '_u'], rng.randrange(1, 4))])
        if r < 0.8:
            if rng.random() < 0.08:
                # a long list of plain data (rows of plain lists, scalars of several kinds): every element still is a node of its own
                def plain_elem():
                    serial[0] += 1
                    return rng.choice([S(serial[0]), S(serial[0] + 0.5), S(f'row{serial[0]}', style='dq'), L([S(serial[0]), S(serial[0] + 1)])])
                return L([plain_elem() for _ in range(rng.choice([15, 16, 17, 24, 40]))])
            return L([cont(d - 1) for _ in range(rng.randrange(1, 4))])
        serial[0] += 1
        return SP('call', func=f'verif_targets.rec{serial[0]}', args=M([['x', leaf()]]))

    base = M([[f't{i}', cont(rng.choice([1, 2, 3]))] for i in range(n_base)])
    # terminal candidates: every path of the base that is not below a call node
    terminals = []

    def collect(n, p):
        if p and gen.path_str(p):
            terminals.append(p)
        if n['t'] == 'map':
            for k, c in n['items']:
                collect(c, p + (k,))
        elif n['t'] == 'seq':
            for i, c in enumerate(n['items']):
                collect(c, p + (i,))
    collect(base, ())
    n_refs = rng.choice([1, 2, 3, 4, 6, 8, 12])
    doc2 = M([])
    refs = []         # {'loc': path, 'doc': 0|1, 'in_call': bool}
    lists = [p for p in terminals if _at(base, p)['t'] == 'seq']
    maps = [()] + [p for p in terminals if _at(base, p)['t'] == 'map']
    for i in range(n_refs):
        r = rng.random()
        if r < 0.45 or (not lists and r < 0.6):
            loc, where = (f'r{i}',), rng.choice([0, 0, 1])
        elif r < 0.6:
            lp = rng.choice(lists)
            lst = _at(base, lp)
            loc, where = lp + (len(lst['items']),), 0
            lst['items'].append(None)        # placeholder, filled below
        elif r < 0.8:
            mp = rng.choice(maps)
            loc, where = mp + (f'x{i}',), rng.choice([0, 1])
        else:
            loc, where = (f'c{i}', 0), 0       # argument of an identity call at top level
        refs.append({'loc': loc, 'doc': where, 'in_call': loc[0].startswith('c') if isinstance(loc[0], str) and len(loc) == 2 and isinstance(loc[1], int) and loc[0][0] == 'c' and loc[0][1:].isdigit() else False})
    # targets
    specials = 0
    for i, rf in enumerate(refs):
        r = rng.random()
        def safe_terminal():
            # mostly avoid pointing at an ancestor of the reference itself (that is a container cycle: generated on purpose elsewhere)
            for _ in range(8):
                t = rng.choice(terminals)
                if rf['loc'][:len(t)] != t or rng.random() < 0.05:
                    return t
            return t
        if r < 0.5 or len(refs) == 1:
            rf['target'] = gen.path_str(safe_terminal())
        elif r < 0.85:
            # mostly forward in creation order (acyclic); sometimes anywhere (cycles arise naturally)
            j = rng.randrange(i + 1, len(refs)) if i + 1 < len(refs) and rng.random() < 0.9 else rng.randrange(len(refs))
            rf['target'] = gen.path_str(refs[j]['loc'])
        elif r < 0.88:
            rf['target'] = gen.path_str(rf['loc'])
            specials += 1
        elif r < 0.91:
            rf['target'] = rng.choice(['nope', 't0.missing.deeper', 't0[99]', 'zz.y', ''])      # ('' is the root: it contains the reference itself)
            specials += 1
        else:
            rf['target'] = gen.path_str(rng.choice(terminals))
    # make long chains likely: link a random permutation prefix
    if len(refs) >= 4 and rng.random() < 0.5:
        order = list(range(len(refs)))
        rng.shuffle(order)
        L_ = rng.randrange(2, min(10, len(order)) + 1)
        for a, b in zip(order[:L_ - 1], order[1:L_]):
            refs[a]['target'] = gen.path_str(refs[b]['loc'])
        if rng.random() < 0.2:
            refs[order[L_ - 1]]['target'] = gen.path_str(refs[order[0]]['loc'])      # close a k-cycle
        else:
            refs[order[L_ - 1]]['target'] = gen.path_str(rng.choice(terminals))
    # materialise
    for i, rf in enumerate(refs):
        node = SP(rng.choice(['xref', 'xref', 'ref']), path=rf['target'])
        loc = rf['loc']
        if rf['in_call']:
            base['items'].insert(rng.randrange(len(base['items']) + 1), [loc[0], SP('call', func=f'verif_targets.id{i}', args=L([node]))])
        elif rf['doc'] == 0:
            if len(loc) == 1:
                base['items'].insert(rng.randrange(len(base['items']) + 1), [loc[0], node])
            else:
                par = _at(base, loc[:-1])
                if par['t'] == 'seq':
                    par['items'][loc[-1]] = node
                else:
                    par['items'].insert(rng.randrange(len(par['items']) + 1), [loc[-1], node])
        else:
            from .c16 import put
            put(doc2, loc, node)
            if len(loc) == 1 and rng.random() < 0.3:
                # the later document's reference overrides something else written there before - a plain value, or a function node
                # (for which a plain *string* would be a new target name; a reference is not a name)
                old = rng.choice([S(f'old{i}', style='dq'), SP('call', func=f'verif_targets.rec{900 + i}', args=M([['x', S(1)]])), SP('bind', func=f'verif_targets.rec{900 + i}', args=L([S(2)])),
                                  M([['was', S(1)]])])
                base['items'].insert(rng.randrange(len(base['items']) + 1), [loc[0], old])
    # hostile values: plain strings spelled exactly like paths / reference texts used in this case
    spell = [gen.path_str(r['loc']) for r in refs] + [r['target'] for r in refs]
    leaves = [nd for _, nd in emit.walk(base) if nd is not None and nd.get('t') == 'sc' and isinstance(nd.get('v'), str)]
    for nd in leaves:
        if rng.random() < 0.25:
            nd['v'] = rng.choice(spell)
            nd['style'] = 'dq'
    if rng.random() < 0.3:
        # an evaluation that overlaps with this one: a target which builds (and evaluates) another config of its own, somewhere in key order
        base['items'].insert(rng.randrange(len(base['items']) + 1), [f'zn{serial[0]}', SP('call', func=f'verif_targets.nested{serial[0]}', args=M([['x', S(1)]]))])
    container_cycle = None
    if rng.random() < 0.05:
        base['items'].append(['cyc', M([['x', SP('xref', path='cyc')], ['y', S('inner', style='dq')]])])
        container_cycle = True
    docs = [base] + ([doc2] if doc2['items'] else [])
    style = rng.choice(['flow', 'block'])
    return {'texts': [emit.emit(d, style) for d in docs], 'refs': refs, 'cycle': container_cycle, 'n_nodes': sum(1 for d in docs for _ in emit.walk(d)),
            'two_sources': rng.random() < 0.5, 'route': rng.choice(['config', 'ctx'])}


def _at(doc, p):
    n = doc
    for c in p:
        if n['t'] == 'map':
            n = dict((k, v) for k, v in n['items'])[c]
        else:
            n = n['items'][c]
    return n


def resolve(refs, start):
    """terminal path string of the chain starting at reference location `start`, or None for bottom"""
    byloc = {gen.path_str(r['loc']): r for r in refs}
    seen = set()
    cur = start
    hops = 0
    while cur in byloc:
        if cur in seen:
            return None, hops
        seen.add(cur)
        cur = byloc[cur]['target']
        hops += 1
    return cur, hops


def container_cycle(plan):
    """evaluating a terminal evaluates every reference located at or below it, which evaluates that reference's
    terminal, ...: a cycle in this dependency graph is a cycle of references through containers"""
    from ..model import parse_path
    term = {}
    for r, T in plan:
        if T is not None:
            term[tuple(r['loc'])] = parse_path(T)
    edges = {}
    for T in set(term.values()):
        edges[T] = {t2 for loc, t2 in term.items() if loc[:len(T)] == T}
    state = {}

    def visit(T):
        if state.get(T) == 1:
            return True
        if state.get(T) == 2:
            return False
        state[T] = 1
        for t2 in edges.get(T, ()):
            if visit(t2):
                return True
        state[T] = 2
        return False
    return any(visit(T) for T in list(edges))


def value_at(cfg, path_text):
    from ..model import parse_path
    v = cfg
    for c in parse_path(path_text):
        v = v[c]
    return v


def run(case):
    from awesomeyaml.config import Config
    import verif_targets
    refs, texts = case['refs'], case['texts']
    # which terminals exist? compute from a reference-free reading of the merged data: any terminal path string that does not resolve is bottom
    expected_fail = bool(case['cycle'])
    plan = []
    maxhops = 0
    for r in refs:
        T, hops = resolve(refs, gen.path_str(r['loc']))
        maxhops = max(maxhops, hops)
        plan.append((r, T))
        if T is None:
            expected_fail = True
    if not expected_fail and container_cycle(plan):
        expected_fail = True
    if any(r['target'] == '' for r in refs):
        expected_fail = True
    feats = ['refs=%d' % min(len(refs), 12), 'maxchain=%d' % min(maxhops, 10)]
    mon = _mon['m']
    n = case['n_nodes'] + len(refs)
    mon.reset(budget=100 * n * n + 10000)
    verif_targets.reset()
    ctx = None
    used = random.Random(util.sig(texts)).random()
    if used < 0.3:
        # a context that has been used before: first a build over the same paths holding other values (the reference-free twin),
        # which in two thirds of the cases fails during evaluation after most paths were evaluated; nothing of it may be seen afterwards
        import re
        from awesomeyaml.eval_context import EvalContext
        ctx = EvalContext()
        twin = [re.sub(r'!(xref|ref) "[^"]*"', '"STALE"', t) for t in texts]
        fails = used < 0.2
        pre = lib.outcome(lambda: lib.build(twin + (['zz_fail: !xref "no.such.path"\n'] if fails else []), eval_ctx=ctx))
        feats.append('context_used_before_' + ('failed' if pre[0] == 'err' else 'built'))
        mon.reset(budget=100 * n * n + 10000)
        verif_targets.reset()
    try:
        if case['two_sources'] or len(texts) == 1:
            got = lib.outcome(lambda: lib.build_via(texts, case.get('route', 'config'), eval_ctx=ctx))
        else:
            got = lib.outcome(lambda: lib.build([''.join(t if t.startswith('--- ') else '---\n' + t for t in texts)], eval_ctx=ctx))
    except monitors.StepBudgetExceeded as e:
        _counts['budget_exceeded'] += 1
        _counts['monitored_steps'] += mon.total
        return {'status': 'violation', 'nontrivial': True, 'feats': feats + ['budget_exceeded'], 'sig': util.sig(texts),
                'violations': [{'mech': 'does-not-terminate-within-step-budget',
                                'what': f'evaluation exceeded {mon.budget} get_node/evaluate_node steps (legitimate cost <= {n * (maxhops + 2)}): {e}; refs={[(gen.path_str(r["loc"]), r["target"]) for r in refs]}; texts={texts!r}'}]}
    _counts['monitored_steps'] += mon.total
    vio = []
    refdesc = [(gen.path_str(r['loc']), r['target']) for r in refs]
    if got[0] == 'ok':
        cfg = got[1]
        # dangling terminals: a terminal path that does not exist in the evaluated config means the oracle says bottom
        for r, T in plan:
            if T is None:
                continue
            try:
                tv = value_at(cfg, T)
            except (KeyError, IndexError, TypeError):
                expected_fail = True
                continue
        if expected_fail:
            vio.append({'mech': 'bottom-reference-accepted', 'what': f'the reference graph {refdesc} contains a dangling / self / cyclic reference but the build succeeded; texts={texts!r}'})
        else:
            for r, T in plan:
                tv = value_at(cfg, T)
                loc = gen.path_str(r['loc'] if not r['in_call'] else r['loc'][:1])
                try:
                    rv = value_at(cfg, loc)
                except (KeyError, IndexError, TypeError) as e:
                    vio.append({'mech': 'reference-missing-from-result', 'what': f'no value at {loc!r} in the built config: {e!r}; refs={refdesc}; texts={texts!r}'})
                    continue
                feats.append('identity_checked')
                if rv is not tv:
                    vio.append({'mech': 'not-the-same-object', 'what': f'cfg[{loc!r}] = {rv!r} (id {id(rv):#x}) is not cfg[{T!r}] = {tv!r} (id {id(tv):#x}); refs={refdesc}; texts={texts!r}'})
                    break
    else:
        # is bottom expected?  (a terminal that does not exist makes it expected as well: decide by building the reference-free twin)
        if not expected_fail:
            missing = _dangling_terminals(case, plan)
            expected_fail = bool(missing)
        if not expected_fail and case.get('deep') and 'RecursionError' in util.exc_names(got[1]):
            vio.append({'mech': KNOWN_DEEP, 'what': f'acyclic chain of {case["deep"]} references, each inside a list: {lib.describe(got)}'})
        elif not expected_fail:
            vio.append({'mech': 'valid-graph-rejected', 'what': f'every reference of {refdesc} ends at an existing node but the build {lib.describe(got)}; texts={texts!r}'})
        elif lib.err_kind(got[1]) not in ('EvalError',):
            vio.append({'mech': 'wrong-error-for-bottom', 'what': f'dangling / cyclic reference must surface as EvalError, build {lib.describe(got)}; texts={texts!r}'})
        else:
            feats.append('bottom_reported_as_EvalError')
    if not vio and not case.get('deep'):
        lv = _live_history(case, plan, feats)
        if lv:
            vio.append(lv)
    nt = len(refs) >= 2 and (maxhops >= 2 or expected_fail)
    res = {'status': 'violation' if vio else 'ok', 'nontrivial': nt, 'feats': sorted(set(feats)), 'sig': util.sig(texts)}
    if vio:
        res['violations'] = vio[:2]
    return res


def _live_history(case, plan, feats):
    """one live tree: built, evaluated in place, then a later source re-routes one or two references, built and evaluated again -
    the outcome must be that of building all the sources afresh (nothing an evaluation leaves on the nodes may decide a later one)"""
    from awesomeyaml.builder import Builder
    from awesomeyaml.config import Config
    from awesomeyaml.eval_context import EvalContext
    from ..emit import M, SP
    from .c16 import put
    rng = random.Random(util.sig(case['texts']) + 'live')
    if rng.random() > 0.4:
        return None
    refs = case['refs']
    simple = [r for r in refs if r['loc'] and all(isinstance(c, str) and gen.path_str((c,)) == c for c in r['loc']) and not r['in_call']]
    targets = sorted({r['target'] for r in refs if r['target']} | {T for _, T in plan if T})
    if not simple or len(targets) < 2:
        return None
    patch = M([])
    for r in rng.sample(simple, min(len(simple), rng.choice([1, 1, 2]))):
        alt = [t for t in targets if t != r['target']]
        if not put(patch, tuple(r['loc']), SP('xref', path=rng.choice(alt))):
            return None
    ptext = emit.emit(patch, 'flow')
    texts = case['texts']

    def live():
        b = Builder()
        for t in texts:
            b.add_source(t, raw_yaml=True)
        tree = b.build()
        for _ in range(2):
            try:
                EvalContext().evaluate(tree)
            except Exception:
                pass
        b.add_source(ptext, raw_yaml=True)
        return Config(b.build())
    a = lib.outcome(live)
    f = lib.outcome(lambda: lib.build(texts + [ptext]))
    feats.append('live_tree_rerouted_after_evaluation')

    def pic(o):
        from .c11 import _tag                  # (recorder results compared by the name of their target, not by their serial number)
        return ('err', lib.err_kind(o[1])) if o[0] == 'err' else ('ok', util.typed(_plain(o[1]), other=_tag))
    if pic(a) != pic(f):
        return {'mech': 'live-tree-history-differs-from-fresh-build', 'what': f'sources {texts!r} built and evaluated in place, then {ptext!r} added and built again -> {lib.describe(a) if a[0] == "err" else util.short(_plain(a[1]), 300)}; all sources built afresh -> {lib.describe(f) if f[0] == "err" else util.short(_plain(f[1]), 300)}'}
    return None


def _plain(v):
    if isinstance(v, dict):
        return {k: _plain(x) for k, x in v.items()}
    if isinstance(v, (list, tuple)):
        return [_plain(x) for x in v]
    return v


def _dangling_terminals(case, plan):
    """terminals that do not exist: evaluate the same texts with every reference replaced by a plain scalar"""
    import re
    texts = [re.sub(r'!(xref|ref) "[^"]*"', '424242', t) for t in case['texts']]          # (a number: a plain string written over a function node would be a new target name)
    o = lib.outcome(lambda: lib.build(texts))
    if o[0] != 'ok':
        return ['<twin build failed>']
    out = []
    for r, T in plan:
        if T is None:
            out.append(None)
            continue
        try:
            value_at(o[1], T)
        except (KeyError, IndexError, TypeError):
            out.append(T)
    return out
