"""C16 - !append / !extend / !prev move and grow existing content without loss.

History + model with unambiguous values: base configs made of unique markers,
then stages holding several operators whose targets exist / are missing / are
not lists, including operators that feed on each other inside one stage.  The
operator model (model.premerge) is calibrated on the append/extend/prev
fixtures; the whole result is compared, which is the frame condition.
"""
import copy
import random

from .. import gen, emit, lib, util, model, calib
from ..emit import M, L, S, SP
from . import c05, c08

ID = 'C16'
LEVEL = 'exploration'
TECHNIQUE = 'runtime monitoring: differential execution against an executable premerge-operator model over unique-marker configs (moves are traceable), calibrated on the repository fixtures'
LEVEL_TEXT = ('Held on the generated histories only: base configs of unique markers (depth<=4) followed by 1-4 stages with 1-5 !append/!extend/!prev operators each, aimed at '
              'top-level and nested, existing and missing, list and non-list targets, also through list indices, including chains inside one stage (an operator consuming what '
              'an earlier one produced, !prev into an ancestor/descendant of its source, plain !prev paths naming string keys spelled like other YAML scalars). The complete result is compared with the model, so every untouched path is checked too.')
LEVEL_NOTE = 'Trusted: model.premerge/merge (calibrated on 9 append/extend/prev fixtures plus the merge fixtures). Documents carry no priority/delete tags here (C03/C04 cover those).'
RULE = ('seeded base + operator stages generated against the model state; non-trivial = at least one operator acts on an existing target; distinct = hash of texts')
ASSUMPTIONS = ['operators are applied in document order against the accumulated tree, then the stage is merged']
TIERS = {'quick': {'cases': 3000, 'budget': 60}, 'thorough': {'cases': 100000, 'budget': 900}}
ODD_KEYS = ['007', '1_000', '0x10', 'null', 'true', '0o7', '1e3', 'No', '010']
POOL = ['a', 'b', 'c', 'd', '_u', 'k1', 'exp-1', 'a.b', 'x y', 'extend']        # incl. keys that are not identifier-like, and one named like a list method


def init(tier):
    return calib.calibrate(['append', 'extend', 'prev', 'list', 'dict'], model.config, min_used=30)


def put(doc, path, node):
    """place `node` at `path` inside the map document `doc` (creating intermediate maps); False if blocked"""
    cur = doc
    for i, c in enumerate(path):
        if cur['t'] != 'map':
            return False
        nxt = None
        for it in cur['items']:
            if it[0] == c and type(it[0]) is type(c):
                nxt = it
                break
        last = i == len(path) - 1
        if last:
            if nxt is not None:
                return False
            cur['items'].append([c, node])
            return True
        if nxt is None:
            nxt = [c, M([])]
            cur['items'].append(nxt)
        cur = nxt[1]
    return False


def gen_case(rng, tier):
    mk = gen.Marker()
    docs = gen.rand_sequence(rng, rng.choice([1, 1, 2]), rng.choice([2, 3, 4]), kinds=('s',), pool_s=POOL, hostile=False, marker=mk, allow_empty=True,
                             p_leaf=0.35)
    n_real = 0
    for _ in range(rng.choice([1, 1, 2, 3, 4])):
        try:
            state = model.config(copy.deepcopy(docs))
        except (model.ModelError, model.OutOfDomain):
            break
        paths = sorted(c08.paths_of(state) - {()}, key=repr)
        lists = [p for p in paths if isinstance(_at(state, p), list)]
        nonlists = [p for p in paths if not isinstance(_at(state, p), list)]
        simple = [p for p in paths if gen.path_str(p)]
        doc = M([])
        for _ in range(rng.choice([1, 1, 2, 2, 3, 5])):
            kind = rng.choice(['append', 'append', 'extend', 'extend', 'prev', 'prev'])
            mode = rng.choice(['good'] * 12 + ['missing', 'wrongtype'])
            args = L([gen.scalar_node(rng, mk.next(rng)) for _ in range(rng.randrange(0, 4))])
            if rng.random() < 0.15:
                args = L([M([['z', S(mk.next(rng))]]), L([S(mk.next(rng))])])
            if kind in ('append', 'extend'):
                if mode == 'good' and lists:
                    p = rng.choice(lists)
                elif mode == 'wrongtype' and nonlists:
                    p = rng.choice(nonlists)
                else:
                    p = (rng.choice(paths) if paths and rng.random() < 0.5 else ())
                    p = tuple(p[:rng.randrange(0, len(p) + 1)]) + ('new%d' % rng.randrange(3),)
                if mode == 'good' and lists:
                    n_real += 1
                put(doc, p, SP(kind, args=args))
            else:
                if mode in ('good', 'wrongtype') and simple:
                    src = rng.choice(simple)
                    n_real += 1
                else:
                    src = ('nope', 'x')
                r = rng.random()
                if r < 0.5 or not paths:
                    dst = ('moved%d' % rng.randrange(3),)
                elif r < 0.75:
                    dst = rng.choice(paths)                 # onto something that exists (possibly an ancestor/descendant of src)
                else:
                    q = rng.choice(paths)
                    dst = tuple(q[:rng.randrange(0, len(q) + 1)]) + ('in%d' % rng.randrange(2),)
                put(doc, dst, SP('prev', path=gen.path_str(src) or 'nope.x'))
        if rng.random() < 0.12:
            # a top-level string key that YAML would read as another scalar were it not quoted ('007', '1_000', '0x10', 'null', ..); the path
            # after !prev is text, written plain: it names that key as it is spelled (round 9, C16-i)
            k = rng.choice(ODD_KEYS)
            if all(it[0] != k for d in docs for it in d['items']) and all(it[0] != k for it in doc['items']):
                docs[0]['items'].append([k, rng.choice([L([S(mk.next(rng, 's')), S(mk.next(rng, 's'))]), M([['x', L([S(mk.next(rng, 's'))])], ['y', S(mk.next(rng, 's'))]])])])
                put(doc, ('odd%d' % rng.randrange(2),), SP('prev', path=k, plain=True))
                n_real += 1
        if rng.random() < 0.3:
            # ordinary content next to the operators
            for k, c in gen.rand_doc(rng, 2, kinds=('s',), pool_s=POOL, hostile=False, marker=mk)['items']:
                put(doc, (k,), c)
        if doc['items']:
            docs.append(doc)
    style = rng.choice(['flow', 'block'])
    return {'docs': docs, 'texts': [emit.emit(d, style) for d in docs], 'n_real': n_real}


def _at(v, p):
    for c in p:
        v = v[c]
    return v


def run(case):
    docs, texts = case['docs'], case['texts']
    ops = [n['kind'] for d in docs for _, n in emit.walk(d) if n['t'] == 'sp']
    feats = sorted(set(ops)) + ['ops=%d' % min(len(ops), 6)]
    try:
        exp = ('ok', model.config(copy.deepcopy(docs), strict_domain=True))
    except model.OutOfDomain:
        return {'status': 'skip', 'feats': ['out_of_domain']}
    except model.ModelError as e:
        exp = ('err', e.kind)
    feats.append('expect_' + (exp[0] if exp[0] == 'ok' else exp[1]))
    got = lib.outcome(lambda: lib.build(texts))
    vio = []
    if exp[0] == 'ok':
        if got[0] != 'ok':
            vio.append({'mech': 'build-fails', 'what': f'model = {util.short(exp[1], 300)} but build {lib.describe(got)}; texts={texts!r}'})
        elif util.typed(c05._plain(got[1])) != util.typed(exp[1]):
            vio.append({'mech': 'differs-from-operator-model', 'what': f'build = {util.short(c05._plain(got[1]), 400)} but the model gives {util.short(exp[1], 400)}; texts={texts!r}'})
    else:
        if got[0] == 'ok':
            vio.append({'mech': 'missing-error', 'what': f'model expects {exp[1]} but build succeeded: {util.short(c05._plain(got[1]), 300)}; texts={texts!r}'})
        elif lib.err_kind(got[1]) != exp[1]:
            vio.append({'mech': 'wrong-error-class', 'what': f'model expects {exp[1]}, build {lib.describe(got)}; texts={texts!r}'})
    res = {'status': 'violation' if vio else 'ok', 'nontrivial': case['n_real'] > 0 and bool(ops), 'feats': feats, 'sig': util.sig(texts)}
    if vio:
        res['violations'] = vio
    return res
