"""C13 - !call / !bind pass arguments as Python would; function nodes merge by table.

(A) binding: generated target signatures x argument key sets.  The model turns
the keys into (positional, by-name) exactly as the statement says and then calls
the *same* recording target natively, so Python itself decides which calls are
TypeErrors; the library must deliver the same bound arguments or an EvalError
caused by the same exception class.  An icontract postcondition on the real
FunctionNode._resolve_args checks, inside the library, that its three outputs
partition the arguments.
(B) merge table: histories of mappings, lists, strings and function nodes merged
onto a function node, compared with the documented table.
"""
import copy
import random
import inspect
import functools

from .. import gen, emit, lib, util
from ..emit import M, L, S, SP

ID = 'C13'
NEED_DEPS = True
LEVEL = 'exploration'
TECHNIQUE = 'runtime monitoring: differential execution against native Python calls of the same recording targets (binding) and against the documented merge table; icontract postcondition on the real _resolve_args'
LEVEL_TEXT = ('Held on the generated cases only: all 2^5 combinations of {positional, defaulted, keyword-only, *args, **kwargs} with 0-4 positional parameters; key sets mixing '
              'ints and names with gaps, duplicates (position and name of one parameter) and indices beyond the signature; mapping / list / scalar / empty argument forms in the '
              '!call:name and !call name spellings, for !call and !bind; dynamic argument values (!xref, nested !call, !eval). Merge histories of length 1-5 onto a function node drawn '
              'from mapping, list, !merge list, string (same / different name), function node (same / different target, default and delete: False).')
LEVEL_NOTE = ('Trusted: Python\'s own call semantics for the native reference call; the table in c13.py as the reading of the class docstrings. '
              '"a string equal to the current name has no effect" is taken from the docstring the statement refers to.')
RULE = 'seeded signature + key set (binding) or merge history (table); non-trivial = binding case with >=2 arguments or a history of >=2 merges; distinct = hash of the case'
ASSUMPTIONS = ['recording targets record the arguments they were bound with']
TIERS = {'quick': {'cases': 4000, 'budget': 60}, 'thorough': {'cases': 120000, 'budget': 900}}
MIN_COUNTERS = {'resolve_args_contract_evaluations': 1}
_contract = {'n': 0, 'fail': []}


def init(tier):
    import icontract
    from awesomeyaml.nodes.function import FunctionNode

    def partitions(func, args, result):
        _contract['n'] += 1
        pos, by_pos_name, by_name = result
        n_in = len(args)
        n_out = len(pos) + len(by_pos_name) + len(by_name)
        ok = n_in == n_out and all(isinstance(k, str) for k in by_pos_name) and all(isinstance(k, str) for k in by_name)
        if not ok:
            _contract['fail'].append(f'_resolve_args({getattr(func, "__name__", func)}, keys={list(args)}) -> {len(pos)} positional, by-position names {list(by_pos_name)}, names {list(by_name)}')
        return True
    FunctionNode._resolve_args = staticmethod(icontract.ensure(partitions)(FunctionNode.__dict__['_resolve_args'].__func__))
    return {'contracts': ['FunctionNode._resolve_args: outputs partition the arguments, by-name parts have str keys']}


def finish():
    return {'resolve_args_contract_evaluations': _contract['n']}


# ------------------------------------------------------------------ (A) binding
def gen_sig(rng):
    npos = rng.randrange(0, 5)
    params = []
    ndef = rng.randrange(0, npos + 1) if rng.random() < 0.5 else 0
    for i in range(npos):
        params.append([f'p{i}', 'pos', i >= npos - ndef])
    if rng.random() < 0.5:
        params.append(['rest', 'var', False])
    for i in range(rng.randrange(0, 3) if rng.random() < 0.5 else 0):
        params.append([f'k{i}', 'kwonly', rng.random() < 0.5])
    if rng.random() < 0.5:
        params.append(['extra', 'varkw', False])
    return params


def gen_binding(rng):
    params = gen_sig(rng)
    posnames = [p[0] for p in params if p[1] == 'pos']
    kwnames = [p[0] for p in params if p[1] == 'kwonly']
    form = rng.choice(['map', 'map', 'map', 'list', 'scalar', 'none'])
    mk = gen.Marker('a')
    keys = []
    if form == 'map':
        well = rng.random() < 0.65
        if well:
            # a well-formed call: a contiguous prefix, possibly one later position, required names
            n = rng.randrange(0, len(posnames) + 1)
            keys = list(range(n))
            rest = [x for x in posnames[n:]]
            for name in rest:
                r = rng.random()
                if r < 0.5:
                    keys.append(name)
                elif r < 0.7:
                    keys.append(posnames.index(name))
            for name in kwnames:
                if rng.random() < 0.8:
                    keys.append(name)
            if any(p[1] == 'var' for p in params) and n == len(posnames) and rng.random() < 0.4:
                keys += [len(posnames), len(posnames) + 1]
            if any(p[1] == 'varkw' for p in params) and rng.random() < 0.4:
                keys.append('other')
        else:
            pool = list(range(0, len(posnames) + 3)) + posnames + kwnames + ['zzz', -1, -2]        # (there is no "-1-th" parameter)
            keys = rng.sample(pool, rng.randrange(0, min(len(pool), 6) + 1))
        rng.shuffle(keys)
    dyn = {}
    values = {}
    for k in keys:
        r = rng.random()
        if r < 0.75:
            values[k] = mk.next(rng)
        elif r < 0.85:
            values[k] = {'__xref__': 'shared'}
        elif r < 0.93:
            values[k] = {'__call__': f'id_{k}'}
        else:
            values[k] = {'__eval__': '40 + 2'}
    nlist = rng.randrange(0, len(posnames) + 2)
    return {'kind': 'binding', 'params': params, 'form': form, 'keys': keys, 'values': {repr(k): v for k, v in values.items()},
            'list': [mk.next(rng) for _ in range(nlist)], 'scalar': mk.next(rng), 'node': rng.choice(['call', 'call', 'bind']),
            'spelling': rng.choice(['colon', 'colon', 'plain'])}


def _val_node(v):
    if isinstance(v, dict) and '__xref__' in v:
        return SP('xref', path=v['__xref__'])
    if isinstance(v, dict) and '__call__' in v:
        return SP('call', func='verif_targets.' + v['__call__'], args=L([S('inner', style='dq')]))
    if isinstance(v, dict) and '__eval__' in v:
        return SP('eval', code=v['__eval__'])
    return S(v, style='dq') if isinstance(v, str) else S(v)


def _val_native(v):
    if isinstance(v, dict) and '__xref__' in v:
        return 'sharedvalue'
    if isinstance(v, dict) and '__call__' in v:
        return 'inner'
    if isinstance(v, dict) and '__eval__' in v:
        return 42
    return v


class BindingErrors(Exception):
    def __init__(self, classes):
        super().__init__(str(classes))
        self.classes = classes


def binding_model(params, args):
    """the statement, executable: returns (positional list, by-name dict); raises BindingErrors with every
    exception class the key set justifies (which one surfaces first is not specified)"""
    ints = sorted(k for k in args if isinstance(k, int))
    pos = []
    i = 0
    while i in args:
        pos.append(args[i])
        i += 1
    by_name = {k: v for k, v in args.items() if isinstance(k, str)}
    if not ints:
        return [], by_name
    names = []
    for p in params:
        if p[1] != 'pos':
            break                  # only positional parameters can be addressed by position
        names.append(p[0])
    errors = set()
    for k in ints:
        if 0 <= k < len(pos):
            continue
        if k < 0 or k >= len(names):
            errors.add(ValueError)
        elif names[k] in by_name:
            errors.add(TypeError)
        else:
            by_name[names[k]] = args[k]
    if errors:
        raise BindingErrors(errors)
    return pos, by_name


def run_binding(case):
    import verif_targets
    from awesomeyaml.config import Config
    params = [tuple(p) for p in case['params']]
    fname = 'sig_' + util.sig(case)[:10]
    f = verif_targets.make_sig(fname, params)
    values = {eval(k): v for k, v in case['values'].items()}
    form = case['form']
    if form == 'map':
        args_native = {k: _val_native(values[k]) for k in case['keys']}
        arg_node = M([[k, _val_node(values[k])] for k in case['keys']])
    elif form == 'list':
        args_native = dict(enumerate(case['list']))
        arg_node = L([_val_node(v) for v in case['list']])
    elif form == 'scalar':
        args_native = {0: case['scalar']}
        arg_node = _val_node(case['scalar'])
    else:
        args_native = {}
        arg_node = None
    feats = ['form_' + form, case['node'], 'params=%d' % len(params)] + sorted({'has_' + p[1] for p in params})
    # expected: native call of the same target
    try:
        pos, kw = binding_model(params, args_native)
        if case['node'] == 'call':
            verif_targets.reset()
            r = f(*pos, **kw)
            exp = ('ok', r.kwargs)
        else:
            exp = ('partial', pos, kw)
    except BindingErrors as e:
        exp = ('err', tuple(sorted(e.classes, key=lambda c: c.__name__)))
    except TypeError as e:
        exp = ('err', (TypeError,))
    # the real thing
    kind = case['node']
    if arg_node is None:
        node = SP(kind, func='verif_targets.' + fname, args=None) if case['spelling'] == 'plain' else SP(kind, func='verif_targets.' + fname, args=M([]))
    elif form == 'scalar':
        node = {'t': 'sp', 'kind': 'raw', 'text': f'!{kind}:verif_targets.{fname} ' + emit.flow(arg_node)}
    else:
        node = SP(kind, func='verif_targets.' + fname, args=arg_node)
    doc = M([['shared', S('sharedvalue', style='dq')], ['target', node]])
    text = emit.emit(doc, 'flow')
    verif_targets.reset()
    got = lib.outcome(lambda: lib.build([text]))
    vio = []
    what = f'signature {f.__name__}{inspect.signature(f)} arguments {args_native!r} text={text!r}'
    feats.append('expect_' + exp[0])
    if exp[0] == 'err':
        if got[0] == 'ok':
            if case['node'] == 'bind' and exp[1] == (TypeError,):
                # a partial is allowed to defer Python's TypeError to call time
                try:
                    got[1]['target']()
                    vio.append({'mech': 'binding-error-missed', 'what': f'native binding raises {[c.__name__ for c in exp[1]]} but the partial built by the library can be called; {what}'})
                except TypeError:
                    feats.append('bind_defers_typeerror')
            else:
                vio.append({'mech': 'binding-error-missed', 'what': f'native binding raises {[c.__name__ for c in exp[1]]} but the build succeeded with {got[1]["target"]!r}; {what}'})
        elif lib.err_kind(got[1]) != 'EvalError' or not any(util.chain_has(got[1], c) for c in exp[1]):
            vio.append({'mech': 'wrong-binding-error', 'what': f'expected EvalError caused by {[c.__name__ for c in exp[1]]}; build {lib.describe(got)} (chain {util.exc_names(got[1])}); {what}'})
    elif got[0] != 'ok':
        vio.append({'mech': 'valid-call-rejected', 'what': f'native call binds {exp[1:]} but the build {lib.describe(got)}; {what}'})
    else:
        t = got[1]['target']
        if exp[0] == 'ok':
            if not isinstance(t, verif_targets.Result) or util.typed(t.kwargs) != util.typed(exp[1]):
                vio.append({'mech': 'arguments-bound-differently', 'what': f'native call binds {exp[1]!r}, the node delivered {getattr(t, "kwargs", t)!r}; {what}'})
        else:
            if not isinstance(t, functools.partial) or t.func is not f or util.typed(list(t.args)) != util.typed(exp[1]) or util.typed(dict(t.keywords)) != util.typed(exp[2]):
                vio.append({'mech': 'partial-differs', 'what': f'expected partial({fname}, *{exp[1]!r}, **{exp[2]!r}) got {t!r}; {what}'})
            else:
                # and calling it behaves like the native partial
                a = lib.outcome(lambda: functools.partial(f, *exp[1], **exp[2])())
                b = lib.outcome(t)
                if a[0] != b[0] or (a[0] == 'ok' and util.typed(a[1].kwargs) != util.typed(b[1].kwargs)):
                    vio.append({'mech': 'partial-call-differs', 'what': f'calling the partial: native {a!r} vs node {b!r}; {what}'})
    if _contract['fail']:
        vio.append({'mech': 'resolve-args-contract', 'what': _contract['fail'].pop() + '; ' + what})
        _contract['fail'].clear()
    res = {'status': 'violation' if vio else 'ok', 'nontrivial': len(args_native) >= 2, 'feats': feats}
    if vio:
        res['violations'] = vio
    return res


# ------------------------------------------------------------------ (B) merge table
def gen_table(rng):
    mk = gen.Marker('m')
    names = ['verif_targets.fa', 'verif_targets.fb', 'verif_targets.fc']
    func = rng.choice(names)
    first = {'func': func, 'args': [[k, mk.next(rng)] for k in rng.sample(['x', 'y', 0, 1, 'z'], rng.randrange(0, 4))], 'node': rng.choice(['call', 'bind'])}
    hist = []
    forced = rng.random() < 0.25 and first['args']
    if forced:
        # arguments protected by a priority of their own: a *different* target still drops them all
        first['forced'] = [kv[0] for kv in first['args'] if rng.random() < 0.7] or [first['args'][0][0]]
    for _ in range(rng.choice([1, 1, 2, 3, 4, 5]) if not forced else 1):
        k = rng.choice(['map', 'map', 'list', 'mergelist', 'str_same', 'str_other', 'fn_same', 'fn_other', 'fn_same_merge', 'fn_other_merge'])
        if forced:
            k = rng.choice(['str_other', 'fn_other'])
        st = {'k': k}
        if k == 'map':
            st['args'] = [[kk, mk.next(rng)] for kk in rng.sample(['x', 'y', 0, 1, 'w', '_func'], rng.randrange(0, 4))]
        elif k in ('list', 'mergelist'):
            st['list'] = [mk.next(rng) for _ in range(rng.randrange(0, 4))]
        elif k == 'str_other' or k.startswith('fn_other'):
            st['name'] = rng.choice(names if not forced else [x for x in names if x != func])
        if k.startswith('fn_'):
            st['args'] = [[kk, mk.next(rng)] for kk in rng.sample(['x', 'y', 0, 'v'], rng.randrange(0, 3))]
        if k != 'list' and rng.random() < 0.3:
            # the merged-in node sits below a !merge ancestor (document root or an enclosing mapping): a function node still replaces
            # the arguments unless *it* is told to merge
            st['under_merge'] = rng.choice(['root', 'wrapper'])
        hist.append(st)
    return {'kind': 'table', 'first': first, 'hist': hist, 'nest': rng.random() < 0.5}


def run_table(case):
    func = case['first']['func']
    args = dict((k, v) for k, v in case['first']['args'])
    kind = case['first']['node']
    case = copy.deepcopy(case)
    for st in case['hist']:
        if 'args' in st:
            st['args'] = dict((k, v) for k, v in st['args'])
    fset = set(case['first'].get('forced') or [])
    nest = bool(case.get('nest'))
    wrap = (lambda n_, **fl: M([['top', M([['f', n_]], **fl)]])) if nest else (lambda n_, **fl: M([['f', n_]], **fl))
    first_fn = SP(kind, func=func, args=M([[k, S(v, prio=1) if k in fset else S(v)] for k, v in args.items()]))
    docs = [M([['other', S(1)], ['top', M([['f', first_fn]])]]) if nest else M([['other', S(1)], ['f', first_fn]])]
    if fset:
        feats_forced = True
    feats = []
    for st in case['hist']:
        k = st['k']
        feats.append('merge_' + k)
        if k == 'map':
            args.update(st['args'])
            node = M([[kk, S(v)] for kk, v in st['args'].items()])
        elif k == 'list':
            args = dict(enumerate(st['list']))
            node = L([S(v) for v in st['list']])
            if not st['list']:
                # an empty list onto a function node: nothing to supply, the (explicitly deleting?) list is not explicit -> arguments dropped
                args = {}
        elif k == 'mergelist':
            # index-wise: existing positions are overwritten, further elements are appended as the next positions
            node = L([S(v) for v in st['list']], **{'del': False})
            for i, v in enumerate(st['list']):
                args[i] = v
        elif k == 'str_same':
            node = S(func, style='dq')                # documented: no effect
        elif k == 'str_other':
            node = S(st['name'], style='dq')
            if st['name'] != func:
                func, args = st['name'], {}
        else:
            name = func if 'same' in k else st['name']
            merge = k.endswith('_merge')
            node = SP(kind, func=name, args=M([[kk, S(v)] for kk, v in st['args'].items()]))
            if merge:
                node['del'] = False
                node['mdsyn'] = 'hex'
            if name != func:
                if merge:
                    args.update(st['args'])
                else:
                    args = dict(st['args'])
                func = name
            else:
                if merge:
                    args.update(st['args'])
                else:
                    args = dict(st['args'])
        um = st.get('under_merge')
        if um:
            feats.append('below_merge_ancestor_' + um)
            d = wrap(node, **{'del': False}) if (um == 'wrapper' or not nest) else wrap(node)
            if um == 'root' and nest:
                d['del'] = False
            docs.append(d)
        else:
            docs.append(wrap(node))
    texts = [emit.emit(d, 'flow') for d in docs]
    got = lib.outcome(lambda: lib.merged(texts))
    vio = []
    if fset:
        feats.append('forced_args_then_other_target')
    if got[0] == 'err':
        vio.append({'mech': 'table-merge-fails', 'what': f'history {case["hist"]!r} on {case["first"]!r}: build {lib.describe(got)}; texts={texts!r}'})
    else:
        n = got[1].ayns.get_child('top').ayns.get_child('f') if nest else got[1].ayns.get_child('f')
        from awesomeyaml.nodes.function import FunctionNode
        if not isinstance(n, FunctionNode):
            vio.append({'mech': 'function-node-lost', 'what': f'after {case["hist"]!r} the node at f is a {type(n).__name__}; texts={texts!r}'})
        else:
            have_f = str(n._func)
            have_a = {(k.ayns.native_value if hasattr(k, 'ayns') else k): v.ayns.native_value for k, v in n.ayns.named_children()}
            if have_f != func or util.typed(have_a) != util.typed(args):
                mech = 'table-differs'
                if have_f == func and 'merge_str_same' in feats:
                    mech = _classify_same_name(case, texts, func, args)
                vio.append({'mech': mech, 'what': f'table says ({func}, {args!r}) but the merged node is ({have_f}, {have_a!r}); history={case["hist"]!r}; texts={texts!r}'})
    if not vio and got[0] == 'ok' and util.sig(texts)[0] in '01234567':
        # the same history on ONE live tree which is evaluated in place between the merges (Builder kept, sources added one by one):
        # evaluating leaves nothing on the nodes that changes what a later merge does
        from awesomeyaml.builder import Builder
        from awesomeyaml.eval_context import EvalContext
        from awesomeyaml.nodes.function import FunctionNode

        def live():
            b = Builder()
            tree = None
            for t in texts:
                b.add_source(t, raw_yaml=True)
                tree = b.build()
                try:
                    EvalContext().evaluate(tree)
                except Exception:
                    pass
            return tree
        lv = lib.outcome(live)
        feats.append('live_tree_evaluated_between_merges')
        if lv[0] == 'err':
            vio.append({'mech': 'table-merge-fails-on-live-tree', 'what': f'history {case["hist"]!r} on {case["first"]!r}, evaluated in place after every stage: {lib.describe(lv)}; texts={texts!r}'})
        else:
            n = lv[1].ayns.get_child('top').ayns.get_child('f') if nest else lv[1].ayns.get_child('f')
            have_f = str(n._func) if isinstance(n, FunctionNode) else type(n).__name__
            have_a = {(k.ayns.native_value if hasattr(k, 'ayns') else k): v.ayns.native_value for k, v in n.ayns.named_children()} if isinstance(n, FunctionNode) else None
            if have_f != func or util.typed(have_a) != util.typed(args):
                vio.append({'mech': 'table-differs-after-in-place-evaluation', 'what': f'table says ({func}, {args!r}); built afresh the merged node agrees, but on a live tree evaluated in place after every stage it is ({have_f}, {have_a!r}); history={case["hist"]!r}; texts={texts!r}'})
    res = {'status': 'violation' if vio else 'ok', 'nontrivial': len(case['hist']) >= 2, 'feats': sorted(set(feats))}
    if vio:
        res['violations'] = vio
    return res


def _classify_same_name(case, texts, func, args):
    return 'table-differs'


BUILTINS = [('range', [1, 5]), ('max', [3, 9]), ('int', ['12']), ('divmod', [7, 2]), ('round', [2.567, 1]), ('min', [4, 2, 8]), ('len', ['abc']), ('pow', [2, 5])]


def gen_builtin(rng):
    # targets whose signature python cannot introspect: contiguous positions need no names
    name, args = rng.choice(BUILTINS)
    return {'kind': 'builtin', 'name': name, 'args': args, 'form': rng.choice(['list', 'intmap', 'scalar' if len(args) == 1 else 'list']), 'node': rng.choice(['call', 'bind'])}


def run_builtin(case):
    import builtins
    f = getattr(builtins, case['name'])
    args = case['args']
    if case['form'] == 'list':
        a = L([emit.from_plain(v) for v in args])
    elif case['form'] == 'intmap':
        a = M([[i, emit.from_plain(v)] for i, v in enumerate(args)])
    else:
        a = emit.from_plain(args[0])
    text = emit.emit(M([['r', SP(case['node'], func=case['name'], args=a)]]), 'flow')
    want = f(*args)
    got = lib.outcome(lambda: lib.build([text]))
    vio = []
    if got[0] != 'ok':
        vio.append({'mech': 'valid-call-rejected', 'what': f'python evaluates {case["name"]}(*{args!r}) = {want!r} but the build {lib.describe(got)}; text={text!r}'})
    else:
        v = got[1]['r']
        if case['node'] == 'bind':
            v = lib.outcome(v)
            v = v[1] if v[0] == 'ok' else v
        if v != want or type(v) is not type(want):
            vio.append({'mech': 'call-result-differs', 'what': f'python evaluates {case["name"]}(*{args!r}) = {want!r} but the config gives {v!r}; text={text!r}'})
    res = {'status': 'violation' if vio else 'ok', 'nontrivial': True, 'feats': ['builtin_target_' + case['form']], 'sig': util.sig([case['name'], case['form'], case['node']])}
    if vio:
        res['violations'] = vio
    return res


def gen_case(rng, tier):
    r = rng.random()
    if r < 0.05:
        return gen_builtin(rng)
    if r < 0.07:
        return {'kind': 'rebind', 'marks': [f'm{rng.randrange(10 ** 9)}' for _ in range(rng.choice([2, 3]))]}
    return gen_binding(rng) if r < 0.65 else gen_table(rng)


def run_rebind(case):
    """the target named by a function node is whatever the name is bound to when the node is evaluated: one name, re-bound between
    builds (plugins registering themselves, a module reloaded), must reach the callable of the moment"""
    import verif_targets
    from awesomeyaml.config import Config
    vio = []
    for m in case['marks']:
        def current(*a, _m=m, **k):
            return ('rebound', _m, a, tuple(sorted(k.items())))
        verif_targets.rebound = current
        o = lib.outcome(lambda: Config.build('x: !call:verif_targets.rebound [1]\ny: !bind:verif_targets.rebound {k: 2}\n', raw_yaml=True))
        if o[0] == 'err':
            vio.append({'mech': 'rebound-target-fails', 'what': f'build {lib.describe(o)}'})
            break
        got = (o[1]['x'], o[1]['y']())
        want = (('rebound', m, (1,), ()), ('rebound', m, (), (('k', 2),)))
        if got != want:
            vio.append({'mech': 'stale-target-called', 'what': f'verif_targets.rebound is bound to the function marked {m!r} but the nodes reached {got!r}'})
            break
    res = {'status': 'violation' if vio else 'ok', 'nontrivial': True, 'feats': ['target_name_rebound_between_builds']}
    if vio:
        res['violations'] = vio
    return res


def run(case):
    if case['kind'] == 'rebind':
        return run_rebind(case)
    if case['kind'] == 'builtin':
        return run_builtin(case)
    return run_binding(case) if case['kind'] == 'binding' else run_table(case)
