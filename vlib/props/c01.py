"""C01 - tags are transparent: one source evaluates to its plain-YAML content.

Differential monitor: the same abstract document is rendered twice - with a
random placement of merge-control tags / metadata, and tag-erased - and
Config.build(tagged) is compared, type-exactly, with what PyYAML's own loader
makes of the twin.  Several placements per skeleton are all compared with the
same twin, which is the metamorphic half of the statement.
"""
import copy
import random
import datetime

import yaml as pyyaml

from .. import gen, emit, lib, util

ID = 'C01'
LEVEL = 'exploration'
TECHNIQUE = 'runtime monitoring: differential execution against PyYAML on the tag-erased twin, plus metamorphic equality across tag placements; loader branch counters'
LEVEL_TEXT = ('Held on the generated documents only: each skeleton (mappings/sequences/scalars, depth<=5, int/float/str/_x keys, hostile '
              'scalar pool, block and flow renderings, aliases/merge keys/binary/timestamps in the raw sub-workload) is built with 3-5 random '
              'placements of !force !weak !del !merge !new !unsafe !metadata:hex !metadata{{..}} and compared type-exactly with PyYAML on the '
              'erased twin. Exploration fits: the oracle is independent (PyYAML itself) and cheap, the input space unbounded.')
LEVEL_NOTE = ('Trusted: yaml.load(Loader=yaml.Loader) of the twin text as reference; metadata *content* restricted to the documented dict-literal '
              'form without adjacent closing braces; keys never bool/None or attribute names of the node classes.')
RULE = ('seeded skeleton documents x k random tag placements, rendered block/flow; non-trivial = at least one tag sits on a container or two '
        'or more tags are placed; distinct = hash of the tagged text')
ASSUMPTIONS = ['PyYAML Loader on the tag-erased text defines the expected data',
               'metadata content is a dict literal without adjacent closing braces or }} inside strings (grammar ambiguous there)']
TIERS = {'quick': {'cases': 3000, 'budget': 60}, 'thorough': {'cases': 60000, 'budget': 900}}
MIN_COUNTERS = {'construct_deep_container': 1, 'construct_shallow_container': 1}

_counts = {}


def init(tier):
    """M-evalcount style counters on the loader's branches (proves tagged-container-over-container-over-list shapes were reached)"""
    import awesomeyaml.yaml as ayy
    orig = ayy.AwesomeyamlLoader.construct_object

    def construct_object(self, node, deep=False, convert=True):
        if convert and isinstance(node, (pyyaml.SequenceNode, pyyaml.MappingNode)):
            key = 'construct_deep_container' if (deep or getattr(self, 'deep_construct', False)) else 'construct_shallow_container'
            _counts[key] = _counts.get(key, 0) + 1
            if isinstance(node, pyyaml.SequenceNode) and getattr(self, 'deep_construct', False) and not deep:
                _counts['list_below_tagged_container_two_levels'] = _counts.get('list_below_tagged_container_two_levels', 0) + 1
        return orig(self, node, deep=deep, convert=convert)
    ayy.AwesomeyamlLoader.construct_object = construct_object
    return None


def finish():
    return dict(_counts)


RAW_TEMPLATES = [
    # aliases, merge keys, binary, timestamps, multi-line scalars, sets of spellings
    "base: &b {x: 1, l: [1, 2, 3]}\nuse: *b\nother: {<<: *b, y: 2}\n",
    "a: &A [1, {k: v}]\nb: TAG {c: *A, d: [*A, *A]}\n",
    "a: TAG {b: !!binary aGVsbG8=, c: [!!binary d29ybGQ=]}\n",
    "a: TAG\n  lit: |\n    line1\n    line2\n  fold: >\n    folded\n    text\n  keep: |+\n    x\n\n",
    "ints: TAG [0x1F, 0o17, 017, 1_000, +12, 0b101, 190:20:30]\nfloats: TAG {a: 1e3, b: 1.0e+3, c: .5, d: 6.8523015e+5, e: 685_230.15}\n",
    "bools: TAG [yes, No, ON, off, y, n, True, FALSE]\nnulls: TAG [~, null, Null, NULL, ]\n",
    "d: TAG {when: 2001-12-14, at: 2001-12-14t21:59:43.10-05:00}\n",
    "s: TAG ['', \"\", ' ', 'null', '~', '1', 'true', \"multi\\nline\", \"tab\\t\", \"uni\\u00e9\"]\n",
    "deep: TAG {a: {b: {c: [1, 2, 3], d: {e: [4, [5, [6]]]}}}}\n",
    "? complexkey\n: TAG [1, 2]\n1.5: TAG {2: [x]}\n-3: TAG y\n",
    "q: TAG \"!x{{1}}\"\nr: 'text !metadata{{ not a tag }}'\n",
    "c: TAG [1, 2] # !force{{'a': 1, }} in a comment\n",
    # lines made of blanks only inside block scalars (more blanks than the block's indentation are content), indented documents
    "a: TAG\n  lit: |\n    first\n       \n    last\n  fold: >\n    one\n      \n    two\n  tail: |+\n    x\n     \n",
    "  top: TAG\n    blk: |-\n      a\n        \n      b\n    n: 1\n  other: TAG [1, 2]\n",
]
RAW_TAGS = ['!force', '!weak', '!del', '!merge', '!new', '!unsafe', "!metadata{{'m': 1, }}", "!metadata{{'priority': 1, 'delete': False, }}", '']


def gen_case(rng, tier):
    r = rng.random()
    if r < 0.08:
        t = rng.choice(RAW_TEMPLATES)
        texts = []
        for _ in range(3):
            x = t
            while 'TAG' in x:
                x = x.replace('TAG', rng.choice(RAW_TAGS), 1)
            texts.append(x)
        return {'kind': 'raw', 'twin': t.replace('TAG ', '').replace('TAG', ''), 'texts': texts}
    depth = rng.choice([2, 3, 4, 5])
    doc = gen.rand_doc(rng, depth, kinds=('s', 's', 's', 'i', 'f'), hostile=rng.random() < 0.6, width=rng.choice([2, 3, 4]))
    if rng.random() < 0.3:
        # several value-less entries in one container (implicit nulls: 'x:' / a bare '-'), equal scalars repeated side by side
        conts = [n for _, n in emit.walk(doc) if n['t'] in ('map', 'seq')]
        for c in rng.sample(conts, min(len(conts), rng.choice([1, 2]))):
            rep = rng.choice([emit.S(None, nf=''), emit.S(None, nf=''), emit.S(None, nf='~'), emit.S(7), emit.S('same', style='dq'), emit.S(True)])
            for j in range(rng.choice([2, 3])):
                if c['t'] == 'map':
                    c['items'].insert(rng.randrange(len(c['items']) + 1), [f'e{j}', dict(rep)])
                else:
                    c['items'].insert(rng.randrange(len(c['items']) + 1), dict(rep))
    if r < 0.14:
        # !notnew in a first document is by design an error
        d = gen.place_flags(rng, doc, p=0.2, notnew=False)
        # the flag governs the content *below* the node carrying it, so only a non-empty container makes the document invalid
        nodes = [n for _, n in emit.walk(d) if n['t'] in ('map', 'seq') and n['items']]
        if not nodes:
            return None
        tgt = rng.choice(nodes)
        tgt['new'] = False
        if gen.md_needed(tgt):
            tgt['mdsyn'] = rng.choice(['hex', 'brace'])
        style = rng.choice(['flow', 'block'])
        return {'kind': 'notnew', 'text': _render(rng, d, style, False)}
    k = 3 if tier == 'quick' else 5
    style = rng.choice(['flow', 'block', 'block'])
    seed = rng.randrange(1 << 30)
    twin = _render(random.Random(seed), doc, style, True)
    texts = []
    docs = []
    for i in range(k):
        p = rng.choice([0.15, 0.3, 0.6])
        d = gen.place_flags(rng, doc, p=p)
        docs.append(d)
        texts.append(_render(random.Random(seed), d, style, False))
    ntags = [sum(1 for _, n in emit.walk(d) if emit.has_flags(n)) for d in docs]
    ctags = [sum(1 for _, n in emit.walk(d) if emit.has_flags(n) and n['t'] != 'sc') for d in docs]
    return {'kind': 'placed', 'twin': twin, 'texts': texts, 'ntags': ntags, 'ctags': ctags}


def _render(r2, d, style, erase):
    return emit.emit(d, style, erase=erase, flow_pred=lambda n: r2.random() < 0.35)


def _has_ts(v):
    if isinstance(v, (datetime.date, datetime.datetime)):
        return True
    if isinstance(v, dict):
        return any(_has_ts(k) or _has_ts(x) for k, x in v.items())
    if isinstance(v, (list, tuple)):
        return any(_has_ts(x) for x in v)
    return False


import re
_BRACE_IN_SCALAR = re.compile(r'![a-zA-Z0-9_:.()]+\{\{')


def _strings(v):
    if isinstance(v, str):
        yield v
    elif isinstance(v, dict):
        for k, x in v.items():
            yield from _strings(k)
            yield from _strings(x)
    elif isinstance(v, (list, tuple)):
        for x in v:
            yield from _strings(x)


def run(case):
    if case['kind'] == 'notnew':
        got = lib.outcome(lambda: lib.build([case['text']]))
        res = {'status': 'ok', 'nontrivial': True, 'feats': ['notnew_first_document'], 'sig': util.sig(case['text'])}
        if got[0] == 'ok' or lib.err_kind(got[1]) != 'MergeError':
            res['status'] = 'violation'
            res['violations'] = [{'mech': 'notnew-first-document-accepted',
                                  'what': f'!notnew in a first document must be a MergeError but build {lib.describe(got)}; text={case["text"]!r}'}]
        return res
    try:
        exp = pyyaml.load(case['twin'], Loader=pyyaml.Loader)
    except Exception:
        return {'status': 'skip', 'feats': ['twin_unparsable']}
    if not isinstance(exp, dict):
        return {'status': 'skip', 'feats': ['twin_not_mapping']}
    et = util.typed(exp)
    feats = [case['kind']]
    vio = []
    nontrivial = False
    for i, text in enumerate(case['texts']):
        got = lib.outcome(lambda: lib.build([text]))
        bad = None
        if got[0] != 'ok':
            bad = f'PyYAML loads the erased twin as {util.short(exp, 300)} but build of the tagged text {lib.describe(got)}'
        elif util.typed(dict(got[1])) != et:
            bad = f'build = {util.short(_show(got[1]), 400)} but PyYAML on the erased twin gives {util.short(exp, 400)}'
        if bad:
            vio.append({'mech': classify(case, text, exp, got), 'what': bad + f' :: tagged text={util.short(text, 500)!r}',
                        'detail': {'placement': i}})
        if case['kind'] == 'raw' or case['ctags'][i] >= 1 or case['ntags'][i] >= 2:
            nontrivial = True
    if '{{' in ''.join(case['texts']):
        feats.append('brace_metadata')
    if ':80' in ''.join(case['texts']):
        feats.append('hex_metadata')
    res = {'status': 'violation' if vio else 'ok', 'nontrivial': nontrivial, 'feats': feats, 'evals': len(case['texts']),
           'sig': util.sig(case['texts'])}
    if vio:
        res['violations'] = vio
    return res


def _show(cfg):
    def conv(v):
        if isinstance(v, dict):
            return {k: conv(x) for k, x in v.items()}
        if isinstance(v, list):
            return [conv(x) for x in v]
        return v
    return conv(cfg)


_TRIGGERS = ['"!x{{1}}"', "!metadata{{ not a tag }}", "# !force{{'a': 1, }} in a comment"]


def classify(case, text, exp, got):
    """mechanism labels.  A known mechanism is claimed only by delta attribution:
    the witness carries the trigger AND the same text with only the trigger
    defused agrees with PyYAML on the equally defused twin."""
    if _has_ts(exp) and got[0] == 'err' and 'cannot be interpreted as an integer' in str(got[1]):
        return 'timestamp-scalar-cannot-be-wrapped'
    if any(t in text for t in _TRIGGERS):
        t2, w2 = text, case['twin']
        for t in _TRIGGERS:
            t2 = t2.replace(t, t.replace('{{', '{ {'))
            w2 = w2.replace(t, t.replace('{{', '{ {'))
        again = lib.outcome(lambda: lib.build([t2]))
        if again[0] == 'ok' and util.typed(dict(again[1])) == util.typed(pyyaml.load(w2, Loader=pyyaml.Loader)):
            return 'brace-rewrite-inside-scalar-or-comment'
    return 'differs-from-pyyaml'
