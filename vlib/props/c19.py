"""C19 - deepcopy and pickle reproduce any node tree, independent of the original.

Per case one document is parsed twice (O1, O2 - parsing is deterministic), O1 is
copied (copy.deepcopy, pickle protocols 2-5) and the copy is compared with O2:
effective per-node view, identity disjointness from O1, structural invariants,
behaviour in probing merge contexts and under evaluation, and independence
under mutation scripts applied to either side.
"""
import copy
import pickle
import random

from .. import gen, emit, lib, util, view, monitors
from ..emit import M, L, S

ID = 'C19'
LEVEL = 'exploration'
TECHNIQUE = 'runtime monitoring: round-trip oracle over effective per-node views, identity-graph disjointness, behavioural equivalence in probing merge contexts, mutation-independence scripts'
LEVEL_TEXT = ('Held on the generated trees only: documents over all node kinds and flag combinations (from YAML with safe/unsafe sources, and through the Python API) are '
              'deep-copied and pickled (protocols 2-5); the copy must equal a second, independently parsed original in kind, content, effective priority/delete/allow_new/safety, '
              'targets, reference points, source file and metadata, share no node with the original, merge and evaluate identically in probing contexts, and stay unchanged '
              'when the other side is mutated.')
LEVEL_NOTE = 'Trusted: view.tree_view as the observation of a tree (effective flags, not raw _implicit_* slots); parsing the same text twice gives equal trees.'
RULE = ('seeded documents (static: every node kind; buildable: evaluable kinds) x {deepcopy, pickle 2..5}; non-trivial = the tree has a tagged container or a special node; '
        'distinct = hash of (text, method)')
ASSUMPTIONS = ['two parses of one text are equal trees (checked: their views are compared first)']
TIERS = {'quick': {'cases': 2500, 'budget': 60}, 'thorough': {'cases': 80000, 'budget': 900}}
FLAGS = ('prio', 'del', 'xdel', 'new', 'safe', 'src', 'attrs')
POOL = ['a', 'b', 'c', 'd', '_u']


def gen_case(rng, tier):
    buildable = rng.random() < 0.45
    doc = gen.rand_doc(rng, rng.choice([2, 3, 4]), hostile=rng.random() < 0.3, pool_s=POOL, kinds=('s', 's', 's', 'i'))
    doc = gen.place_flags(rng, doc, p=rng.choice([0.15, 0.3]), notnew=not buildable)
    doc = gen.decorate_specials(rng, doc, gen.BUILDABLE_KINDS if buildable else gen.STATIC_KINDS, p=rng.choice([0.2, 0.4]))
    if buildable and doc.get('new') is False:
        doc['new'] = None
    style = rng.choice(['flow', 'block'])
    alias_text, alias_expanded = '', None
    if rng.random() < 0.25:
        # one node object reachable under several paths (YAML anchors / aliases), some of them through list elements: the copy must
        # have the same sharing structure (one evaluation, one object)
        style = 'block'
        i = rng.randrange(1000)
        alias_text, alias_expanded = rng.choice([
            (f'al_s: &anc !call:verif_targets.t{i} {{x: 1}}\nal_l: [*anc, 2]\nal_m: {{k: *anc}}\n', None),
            ('al_q: &anq [1, {z: 2}]\nal_r: {a: *anq, b: [*anq]}\n', None),
            ('al_t: [&ant {p: !xref al_u, q: [1]}]\nal_u: 5\nal_v: [*ant, [*ant]]\n', None),
            ('al_w: &anw "text"\nal_x: [*anw, *anw]\nal_y: {k: [*anw]}\n', None),
            # the recorded finding: the shared node sits below parents that hand down different flags (a mapping and a list)
            ('al_t: &ant {p: 1, q: [1]}\nal_v: [*ant]\n', 'al_t: {p: 1, q: [1]}\nal_v: [{p: 1, q: [1]}]\n')])
    if rng.random() < 0.025 and not alias_text:
        # a list longer than the batches in which pickle hands the elements of a list back (1000 at a time)
        style = 'block'
        n_big = rng.choice([1001, 1500, 2300])
        alias_text = 'big_list: [' + ', '.join(str(i) if i % 7 else '{k: %d}' % i for i in range(n_big)) + ']\n'
    before = [emit.emit(d, 'flow') for d in gen.rand_sequence(rng, rng.randrange(0, 3), 2, pool_s=POOL, hostile=False, kinds=('s',))]
    after = []
    for _ in range(rng.randrange(0, 3)):
        d = gen.mutate_doc(rng, emit.strip_flags(_despecial(doc)), 2, pool_s=POOL, hostile=False, kinds=('s',))
        after.append(emit.emit(gen.place_flags(rng, d, p=0.2, vocab=('prio', 'del')), 'flow'))
    muts = [{'sel': rng.random(), 'op': rng.choice(['set', 'del', 'clear', 'append', 'pop', 'insert', 'setitem']), 'r': rng.random(),
             'value': rng.choice([1, 'm', None, [1, 2], {'q': 1}])} for _ in range(rng.randrange(1, 5))]
    return {'text': emit.emit(doc, style) + alias_text, 'buildable': buildable, 'safe': rng.random() < 0.8, 'filename': rng.choice([None, '/tmp/x/cfg.yaml']),
            'method': rng.choice(['deepcopy', 'deepcopy', 'pickle2', 'pickle3', 'pickle4', 'pickle5']),
            'before': before, 'after': after, 'muts': muts, 'api': rng.random() < 0.15,
            # what is "being parsed" by this thread while the copy is made (copies made from a custom constructor, inside a parse loop ...):
            # the ambient per-thread defaults for new nodes must not leak into a copy
            'ambient': rng.choice(['none', 'none', 'file', 'file_unsafe']),
            'expanded': (emit.emit(doc, style) + alias_expanded) if alias_expanded else None,
            'merged': rng.random() < 0.3 and not alias_text,
            # the tree has been evaluated in place before it is copied (whatever evaluation leaves on the nodes must be copyable too)
            'used': rng.random() < 0.25, 'stream': rng.choice([0] * 18 + [1, 2]), 'api_reserved': rng.choice([None] * 7 + ['items', 'keys', 'update'])}


def _despecial(doc):
    d = copy.deepcopy(doc)

    def rec(n):
        if n['t'] == 'map':
            n['items'] = [[k, rec(c)] for k, c in n['items']]
        elif n['t'] == 'seq':
            n['items'] = [rec(c) for c in n['items']]
        elif n['t'] == 'sp':
            return S('was_' + n['kind'])
        return n
    return rec(d)


def parse(case):
    t = _parse(case)
    if t is not None and case.get('used'):
        from awesomeyaml.eval_context import EvalContext
        for _ in range(2):
            try:
                EvalContext().evaluate(t)
            except Exception:
                pass
    return t


def _parse(case):
    from awesomeyaml.builder import Builder
    if case.get('stream'):
        # a tree between Builder.preprocess() and the merge: the nested include has become a node holding the included documents,
        # still to be merged with each other and with what is around them
        import os
        import shutil
        import tempfile
        root = os.path.join(tempfile.gettempdir(), f'verif_c19_{os.getpid()}')         # (the same name for every parse of this process: file names are part of the trees)
        shutil.rmtree(root, ignore_errors=True)
        os.makedirs(root)
        try:
            with open(os.path.join(root, 'inc.yaml'), 'w') as f:
                f.write('p: 1\nq: [1, 2]\n---\nq: !append [3]\nr: {s: 1}\n' if case['stream'] == 2 else 'p: 1\nq: [1, 2]\n')
            main = os.path.join(root, 'main.yaml')
            with open(main, 'w') as f:
                f.write('k: !include inc.yaml\nother: {x: 1}\nkk: {deep: !include [inc.yaml, inc.yaml]}\n')
            b = Builder()
            b.add_source(main, safe=case['safe'])
            b.preprocess()
            return b.stages[0] if len(b.stages) == 1 else None
        finally:
            shutil.rmtree(root, ignore_errors=True)
    b = Builder()
    b.add_source(case['text'], raw_yaml=True, safe=case['safe'], filename=case['filename'])
    if len(b.stages) != 1:
        return None
    t = b.stages[0]
    if case.get('merged'):
        # the tree to copy is the result of a merge (explicit flags taken over from newer stages, nodes adopted by older containers ...)
        b2 = Builder()
        for x in case['before']:
            b2.add_source(x, raw_yaml=True)
        b2.add_source(case['text'], raw_yaml=True, safe=case['safe'], filename=case['filename'])
        for x in case['after']:
            b2.add_source(x, raw_yaml=True)
        return b2.build()
    if case.get('api'):
        # rebuild through the Python API from the parsed tree's plain view where possible
        from awesomeyaml.nodes.dict import ConfigDict
        from awesomeyaml.nodes.node import ConfigNode
        plain = {'x': [1, {'y': 2}], '_u': None}
        if case.get('api_reserved'):
            # a key named like an attribute of the mapping class: either the tree cannot be built at all (as for assignment), or it can be copied
            plain['x'][1][case['api_reserved']] = 3
        try:
            t = ConfigDict({'wrapped': t, 'plain': plain}, priority=ConfigNode.FORCE, delete=False, safe=case['safe'] or None,
                           metadata={'api': True})
        except ValueError:
            if case.get('api_reserved'):
                return None
            raise
    return t


def do_copy(tree, method, ambient='none'):
    import contextlib
    from awesomeyaml.nodes.node import ConfigNode
    with contextlib.ExitStack() as st:
        if ambient != 'none':
            st.enter_context(ConfigNode.default_filename('/verif_nowhere/being_parsed.yaml'))
        if ambient == 'file_unsafe':
            st.enter_context(ConfigNode.default_safe_flag(False))
        if method == 'deepcopy':
            return copy.deepcopy(tree)
        return pickle.loads(pickle.dumps(tree, protocol=int(method[-1])))


def ids(tree):
    from awesomeyaml.nodes.composed import ComposedNode
    out = {id(tree)}
    if isinstance(tree, ComposedNode):
        for n in tree.ayns.nodes(include_self=True, allow_duplicates=True):
            out.add(id(n))
    return out


def tv(t):
    return view.tree_view(t, flags=FLAGS, md=True), sharing(t)


def sharing(t):
    """which paths lead to one and the same node object (groups of size > 1, container nodes and leaves alike)"""
    from awesomeyaml.nodes.composed import ComposedNode
    if not isinstance(t, ComposedNode):
        return ()
    groups = {}
    for p, n in t.ayns.nodes_with_paths(include_self=False):
        groups.setdefault(id(n), []).append(str(p))
    return tuple(sorted(tuple(sorted(g)) for g in groups.values() if len(g) > 1))


def mutate_metadata(tree, r):
    """edit nested mutable values of user metadata in place (lists / dicts inside node.ayns.metadata), on every kind of node incl. key nodes"""
    from awesomeyaml.nodes.node import ConfigNode
    nodes = [tree] + list(tree.ayns.nodes(include_self=False, allow_duplicates=True))
    for n in list(nodes):
        if isinstance(n, dict):
            nodes.extend(k for k in dict.keys(n) if isinstance(k, ConfigNode))
    hit = 0
    for n in nodes:
        for k, v in list(n.ayns.metadata.items()):
            if isinstance(v, list):
                v.append('EDITED')
                hit += 1
            elif isinstance(v, dict):
                v['EDITED'] = r
                hit += 1
    return hit


def mutate(tree, muts):
    from awesomeyaml.nodes.composed import ComposedNode
    mutate_metadata(tree, muts[0]['r'])
    for m in muts:
        conts = [n for n in tree.ayns.nodes(include_self=True) if isinstance(n, ComposedNode) and not isinstance(n, tuple)]
        n = conts[int(m['sel'] * len(conts))]
        try:
            if isinstance(n, dict):
                keys = list(dict.keys(n))
                k = keys[int(m['r'] * len(keys))] if keys and m['op'] != 'set' else 'mut'
                if m['op'] in ('set', 'append', 'insert', 'setitem'):
                    n[k] = copy.deepcopy(m['value'])
                elif m['op'] in ('del', 'pop'):
                    del n[k]
                else:
                    n.clear()
            else:
                if m['op'] in ('append', 'set'):
                    n.append(copy.deepcopy(m['value']))
                elif m['op'] == 'insert':
                    n.insert(int(m['r'] * (len(n) + 1)), copy.deepcopy(m['value']))
                elif m['op'] in ('pop', 'del'):
                    n.pop(int(m['r'] * len(n)))
                elif m['op'] == 'setitem':
                    n[int(m['r'] * len(n))] = copy.deepcopy(m['value'])
                else:
                    n.clear()
        except (IndexError, KeyError, TypeError, ValueError):
            pass


def _res_tag(v):
    import verif_targets
    if isinstance(v, verif_targets.Result):
        return ('R', v.name, util.typed(v.args, other=_res_tag), util.typed(v.kwargs, other=_res_tag))
    if callable(v):
        return ('callable', getattr(v, '__module__', '?'), getattr(v, '__qualname__', repr(v)))
    return None


def behaviour(case, tree, kinds=True):
    """merged-tree view and evaluation outcome of before + [tree] + after"""
    from awesomeyaml.builder import Builder
    from awesomeyaml.config import Config
    import verif_targets
    b = Builder()
    for t in case['before']:
        b.add_source(t, raw_yaml=True)
    b.stages.append(tree)
    for t in case['after']:
        b.add_source(t, raw_yaml=True)
    o = lib.outcome(b.build)
    if o[0] == 'err':
        return ('merge-err', lib.err_kind(o[1]))
    mv = view.tree_view(o[1], flags=('prio', 'safe'), md=True, kinds=kinds)
    verif_targets.reset()
    e = lib.outcome(lambda: Config(o[1]))
    calls = sorted((c[0], repr(util.typed(c[1], other=_res_tag))) for c in verif_targets.LOG)
    if e[0] == 'err':
        return ('eval-err', mv, lib.err_kind(e[1]), calls)
    return ('ok', mv, util.typed(_plain(e[1]), other=_res_tag), calls)


KNOWN_STREAM = 'include-stream-copied-apart-from-its-tree'


def _holds_stream(node):
    from awesomeyaml.nodes.stream import StreamNode
    return isinstance(node, StreamNode) or any(isinstance(n, StreamNode) for n in node.ayns.nodes(include_self=False, allow_duplicates=True))


def _plain(v):
    if isinstance(v, dict):
        return {k: _plain(x) for k, x in v.items()}
    if isinstance(v, list):
        return [_plain(x) for x in v]
    return v


def run(case):
    o1 = lib.outcome(parse, case)
    if o1[0] == 'err' or o1[1] is None:
        return {'status': 'skip', 'feats': ['unparsable']}
    O1 = o1[1]
    O2 = parse(case)
    feats = ['method_' + case['method'], 'buildable' if case['buildable'] else 'static', 'safe_src' if case['safe'] else 'unsafe_src'] + (['merged_tree'] if case.get('merged') else []) + (['evaluated_in_place_before'] if case.get('used') else []) + (['preprocessed_tree_with_include_streams'] if case.get('stream') else [])
    if tv(O1) != tv(O2):
        return {'status': 'inconclusive', 'why': 'two parses of the same text differ: the round-trip oracle is unusable for this case'}
    vio = []
    amb = case.get('ambient', 'none')
    feats.append('ambient_defaults_' + amb)
    c = lib.outcome(do_copy, O1, case['method'], amb)
    txt = f'text={case["text"]!r} method={case["method"]} safe={case["safe"]} filename={case["filename"]!r} ambient defaults while copying={amb}'
    if c[0] == 'err':
        vio.append({'mech': 'copy-raises', 'what': f'{case["method"]} raises {type(c[1]).__name__}: {c[1]}; {txt}'})
    else:
        C = c[1]
        a, b = tv(C), tv(O2)
        if a != b:
            vio.append({'mech': 'view-differs', 'what': f'copy differs from the original: {_diff(a, b)}; {txt}'})
        if type(C) is not type(O1):
            vio.append({'mech': 'root-kind-differs', 'what': f'copy is {type(C).__name__}, original {type(O1).__name__}; {txt}'})
        shared = ids(C) & ids(O1)
        if shared:
            vio.append({'mech': 'shares-nodes', 'what': f'{len(shared)} node object(s) are shared between copy and original; {txt}'})
        probs = monitors.treesan(C)
        if probs and not monitors.treesan(O2):
            vio.append({'mech': 'copy-inconsistent', 'what': f'the copy violates container invariants the original satisfies: {probs[0]}; {txt}'})
        if not vio:
            # a container copied out of the middle of the tree keeps what it inherited from the ancestors it leaves behind
            from awesomeyaml.nodes.composed import ComposedNode
            inner1 = [n for n in O1.ayns.nodes(include_self=False, allow_duplicates=True) if isinstance(n, ComposedNode) and not isinstance(n, tuple)]
            inner2 = [n for n in O2.ayns.nodes(include_self=False, allow_duplicates=True) if isinstance(n, ComposedNode) and not isinstance(n, tuple)]
            if inner1 and len(inner1) == len(inner2):
                k = int(case['muts'][0]['sel'] * len(inner1))
                ci = lib.outcome(do_copy, inner1[k], case['method'], amb)
                feats.append('inner_container_copied')
                if ci[0] == 'err' and case.get('stream') and _holds_stream(inner1[k]) and isinstance(ci[1], AttributeError):
                    # recorded finding (DESIGN 7.3): the node an include has become keeps its sub-builder, and through it the whole tree it was
                    # cut out of; copied on its own it meets itself half-built
                    vio.append({'mech': KNOWN_STREAM, 'what': f'{case["method"]} of a subtree holding an include stream, copied apart from its tree, raises {type(ci[1]).__name__}: {ci[1]}'})
                elif ci[0] == 'err':
                    vio.append({'mech': 'copy-raises', 'what': f'{case["method"]} of an inner container raises {type(ci[1]).__name__}: {ci[1]}; {txt}'})
                elif tv(ci[1]) != tv(inner2[k]):
                    vio.append({'mech': 'inner-copy-differs', 'what': f'copy of inner container #{k} ({type(inner1[k]).__name__}) differs from the original: {_diff(tv(ci[1]), tv(inner2[k]))}; {txt}'})
        if not vio and case['buildable']:
            feats.append('behaviour_checked')
            bc, bo = behaviour(case, do_copy(O1, case['method'], amb)), behaviour(case, O2)
            if bc != bo:
                vio.append({'mech': 'behaves-differently', 'what': f'copy -> {util.short(bc, 300)} but original -> {util.short(bo, 300)}; before={case["before"]!r} after={case["after"]!r}; {txt}'})
        if not vio:
            # independence: mutate the copy, the original must not move; then the other way round
            C2 = do_copy(O1, case['method'])
            ref = tv(O1)
            mutate(C2, case['muts'])
            if tv(O1) != ref:
                vio.append({'mech': 'mutating-copy-changes-original', 'what': f'mutations {case["muts"]!r} on the copy changed the original; {txt}'})
            C3 = do_copy(O1, case['method'])
            ref3 = tv(C3)
            mutate(O1, case['muts'])
            if tv(C3) != ref3:
                vio.append({'mech': 'mutating-original-changes-copy', 'what': f'mutations {case["muts"]!r} on the original changed the copy; {txt}'})
    nt = any(tag in case['text'] for tag in ('!call', '!bind', '!xref', '!ref', '!eval', '!path', '!include', '!force {', '!weak {', '!del {', '!metadata'))
    if vio and case.get('expanded') and all(v['mech'] in ('view-differs', 'inner-copy-differs', 'behaves-differently') for v in vio):
        # delta for the recorded finding: the same document with every alias written out as a copy of the anchored text
        twin = dict(case, text=case['expanded'], expanded=None)
        if run(twin).get('status') == 'ok':
            vio = [dict(vio[0], mech=KNOWN_ALIAS)]
    res = {'status': 'violation' if vio else 'ok', 'nontrivial': nt, 'feats': feats, 'sig': util.sig([case['text'], case['method'], case['safe']])}
    if vio:
        res['violations'] = vio
    return res


KNOWN_ALIAS = 'node-shared-through-yaml-alias-has-one-set-of-inherited-flags'


def _diff(a, b, path=''):
    if isinstance(a, tuple) and len(a) == 2 and isinstance(a[1], tuple) and not path and isinstance(b, tuple) and len(b) == 2 and not isinstance(a[0], str):
        if a[0] == b[0]:
            return f'paths leading to one and the same node object: {a[1]!r} in the copy but {b[1]!r} in the original'
        a, b = a[0], b[0]
    da, db = dict(a), dict(b)
    for k in sorted(set(da) | set(db)):
        if k == 'ch':
            continue
        if da.get(k) != db.get(k):
            return f'at {path or "<root>"}: {k} is {da.get(k)!r} in the copy but {db.get(k)!r} in the original'
    ca, cb = da.get('ch') or (), db.get('ch') or ()
    if [k for k, _ in ca] != [k for k, _ in cb]:
        return f'at {path or "<root>"}: children {[k for k, _ in ca]} vs {[k for k, _ in cb]}'
    for (k, x), (_, y) in zip(ca, cb):
        if x != y:
            return _diff(x, y, path + '/' + repr(k[-1]))
    return 'views differ'
