"""C04 - !del / list replacement is exact; !merge makes it element-wise; !clear empties.

History + executable model (model.py: deletion semantics with look-ups relative
to the deleting node), calibrated at start-up on the repository's dict/list
fixtures; independently of the model every case is also built wrapped under
extra keys and compared with the wrap-image of the unwrapped result.
"""
import copy
import random

from .. import gen, emit, lib, util, model, calib
from ..emit import M, L, S, SP
from . import c05

ID = 'C04'
LEVEL = 'exploration'
TECHNIQUE = 'runtime monitoring: differential execution against an executable deletion/merge model calibrated on the repository fixtures, plus a model-free wrap relation'
LEVEL_TEXT = ('Held on the generated histories only: 2-4 stages with !del, !merge, !clear, value-less !del and priorities at every depth (deleting nodes nested '
              '1-4 levels down, child keys equal to ancestor keys, lists of scalars / mappings / lists, explicitly deleting empty containers, !merge index mappings with several value-less !del in any key order) are built and '
              'compared type-exactly with the model; the model must first reproduce all usable dict/list/new_and_notnew fixtures (else inconclusive).')
LEVEL_NOTE = ('Trusted: model.py as the reading of the statement (calibrated on 44 fixtures). Out of the checked domain because the statement is silent: scalar/container '
              'conflicts that would discard higher-priority entries, priority tags on list elements, nested conflicting priority tags, '
              'value-less !del aimed at a missing key, a deleting mapping over a list when either side carries priorities of its own.')
RULE = ('seeded 2-4 stage sequences with deletion/merge tags and an antichain of priorities; non-trivial = the sequence contains a deleting node (explicit, list, '
        '!clear or value-less !del) that meets older content at its path; distinct = hash of texts')
ASSUMPTIONS = ['model.py deletion semantics (relative look-up) is the reference; inputs outside the documented domain are skipped and counted']
TIERS = {'quick': {'cases': 3000, 'budget': 60}, 'thorough': {'cases': 100000, 'budget': 900}}
POOL = ['a', 'b', 'c', 'd', '_u']


def init(tier):
    return calib.calibrate(['dict', 'list', 'new_and_notnew'], lambda docs: model.plain(model.build(docs)), min_used=30)


def _place(rng, doc, stage, p_prio, p_del):
    d = copy.deepcopy(doc)

    def rec(n, tagged, in_seq, is_root):
        if n['t'] == 'sp':
            return
        if (not tagged or rng.random() < 0.25) and not in_seq and rng.random() < (p_prio * 0.4 if is_root else p_prio):
            n['prio'] = rng.choice([1, -1])
            tagged = True
        if rng.random() < p_del and not (in_seq and rng.random() < 0.7):
            v = rng.choice([True, True, False])
            if n['t'] == 'sc':
                if in_seq:
                    v = None
            if v is not None:
                n['del'] = v
        if n.get('prio') is not None and n.get('del') is not None:
            n['mdsyn'] = rng.choice(['hex', 'brace'])
        if n['t'] == 'map':
            for _, c in n['items']:
                rec(c, tagged, False, False)
        elif n['t'] == 'seq':
            for c in n['items']:
                rec(c, tagged, True, False)

    rec(d, False, False, True)
    return d


def _same_place(p, q):
    """do the two paths possibly name the same node?  (a list position can be spelled from either end: any two integers may coincide)"""
    return len(p) == len(q) and all(a == b or (isinstance(a, int) and isinstance(b, int) and not isinstance(a, bool) and not isinstance(b, bool)) for a, b in zip(p, q))


def gen_case(rng, tier):
    nst = rng.choice([2, 2, 2, 3, 3, 4])
    docs = gen.rand_sequence(rng, nst, rng.choice([2, 3, 4]), kinds=('s',), pool_s=POOL, hostile=False, marker=gen.Marker(),
                             width=3, p_leaf=0.4)
    # function nodes are containers too: an unprotected !call/!bind below a deleting parent must go (with priorities: only protected arguments stay)
    fpath = None
    d0 = docs[0]
    conts = [(p, n) for p, n in emit.walk(d0) if n['t'] == 'map' and n['items']]
    if conts and rng.random() < 0.35:
        tp, tgt = rng.choice(conts)
        it = rng.choice(tgt['items'])
        fpath = tp + (it[0],)
        # later stages act on its ancestors only (what is merged *onto* a function node follows C13's table, not this model)
        for d in docs[1:]:
            for p, n in list(emit.walk(d)):
                if n['t'] == 'map' and _same_place(p, fpath[:-1]):
                    n['items'] = [x for x in n['items'] if x[0] != fpath[-1]]
        it[1] = SP(rng.choice(['call', 'bind']), func='verif_targets.fn%d' % rng.randrange(5),
                   args=M([[k, gen.scalar_node(rng, gen.rand_scalar(rng, False))] for k in rng.sample(['x', 'y', 0], rng.randrange(0, 3))]))
    out = []
    p_prio = rng.choice([0, 0.15, 0.3])
    p_del = rng.choice([0.1, 0.25, 0.4])
    for i, d in enumerate(docs):
        if i > 0 and rng.random() < 0.5:
            d = gen.add_specials(rng, d, docs[:i], p=0.2, kinds=('clear', 'vdel'))
        if i > 0 and rng.random() < 0.15:
            # explicitly deleting empty containers on existing keys
            tops = [k for k, _ in docs[i - 1]['items']]
            if tops:
                k = rng.choice(tops)
                d = copy.deepcopy(d)
                d['items'] = [it for it in d['items'] if it[0] != k] + [[k, rng.choice([M([]), L([])])]]
                d['items'][-1][1]['del'] = True
        d = _place(rng, d, i, p_prio, p_del)
        if i > 0 and rng.random() < 0.12 and out:
            # !clear aimed at a container that carries an explicit !del / !merge of its own: an empty container of the same kind stays
            prev = out[-1]
            tops = [(k, n) for k, n in prev['items'] if n['t'] in ('map', 'seq') and n['items'] and not (fpath and k == fpath[0])]
            if tops:
                k, n = rng.choice(tops)
                n['del'] = rng.choice([True, True, False])
                if n.get('prio') is not None:
                    n['mdsyn'] = 'hex'
                d = copy.deepcopy(d)
                d['items'] = [it for it in d['items'] if it[0] != k] + [[k, SP('clear')]]
        if i > 0 and rng.random() < 0.1 and out:
            # a deleting mapping (names as keys) written over a list, some of its own entries weaker than the rest: it replaces the
            # list as it stands - nothing of it is measured against the elements it removes
            prev = out[-1]
            tops = [(k, n) for k, n in prev['items'] if n['t'] == 'seq' and not emit.has_flags(n) and not any(emit.has_flags(x) for _, x in emit.walk(n)) and not (fpath and k == fpath[0])]
            if tops:
                k, _ = rng.choice(tops)
                repl = M([['ra', L([S(7)], prio=-1) if rng.random() < 0.5 else S(8, prio=-1)], ['rb', S(2)], ['rc', M([['x', S(1, prio=-1)]])]], **{'del': True})
                d = copy.deepcopy(d)
                d['items'] = [it for it in d['items'] if it[0] != k] + [[k, repl]]
        if i > 0 and rng.random() < 0.12 and out:
            # a !merge mapping addressing positions of an older list, two or more of them value-less !del, keys written in any
            # order (not ascending): every position names the list as it was before the merge (round 9, C04-i)
            prev = out[-1]
            tops = [(k, n) for k, n in prev['items'] if n['t'] == 'seq' and len(n['items']) >= 3 and not emit.has_flags(n)
                    and not any(emit.has_flags(x) for _, x in emit.walk(n)) and not (fpath and k == fpath[0])]
            if tops:
                k, n = rng.choice(tops)
                ln = len(n['items'])
                idx = rng.sample(range(ln), rng.randrange(2, min(ln, 4) + 1))
                ents = [[j, S(None, vdel=True)] for j in idx[:max(2, len(idx) - 1)]] + [[j, S(900 + j)] for j in idx[max(2, len(idx) - 1):]]
                rng.shuffle(ents)
                d = copy.deepcopy(d)
                d['items'] = [it for it in d['items'] if it[0] != k] + [[k, M(ents, **{'del': False})]]
        if i > 0 and rng.random() < 0.15:
            # an explicitly deleting scalar that merely is falsy: it has a value, the key stays
            tops = [k for k, _ in docs[i - 1]['items'] if not (fpath and k == fpath[0])]
            if tops:
                k = rng.choice(tops)
                d = copy.deepcopy(d)
                d['items'] = [it for it in d['items'] if it[0] != k] + [[k, S(rng.choice([0, False, '', 0.0]), **{'del': True})]]
        out.append(d)
    if fpath is not None:
        for d in out[1:]:
            for p, n in list(emit.walk(d)):
                if n['t'] == 'map' and _same_place(p, fpath[:-1]):
                    n['items'] = [x for x in n['items'] if x[0] != fpath[-1]]
    style = rng.choice(['flow', 'block'])
    r2 = random.Random(rng.randrange(1 << 30))
    prefix = [rng.choice(POOL) for _ in range(rng.choice([1, 2]))]
    return {'docs': out, 'texts': [emit.emit(d, style, flow_pred=lambda n: r2.random() < 0.3) for d in out],
            'wrapped': [emit.emit(c05.wrap(d, prefix), style) for d in out], 'prefix': prefix}


def _native(tree):
    """plain data of the *merged* tree (function nodes as the mapping of their arguments): nothing is evaluated here"""
    from ..props.c17 import native
    if tree is None:
        return {}
    return native(tree)


def _deleting_meets_old(docs):
    seen = set()
    hit = False
    for i, d in enumerate(docs):
        paths = {p: n for p, n in emit.walk(d)}
        if i > 0:
            for p, n in paths.items():
                if p in seen and (n.get('del') is True or n.get('vdel') or (n['t'] == 'seq' and n.get('del') is None)
                                  or (n['t'] == 'sp' and n['kind'] == 'clear')):
                    hit = True
        seen |= set(paths)
    return hit


def run(case):
    docs, texts = case['docs'], case['texts']
    feats = ['stages=%d' % len(docs)]
    from .c14 import to_model
    try:
        exp = ('ok', model.plain(model.build([to_model(d) for d in docs], strict_domain=True)))
    except model.OutOfDomain as e:
        return {'status': 'skip', 'feats': ['out_of_domain']}
    except model.ModelError as e:
        exp = ('err', e.kind)
    for d in docs:
        for p, n in emit.walk(d):
            if n.get('del') is True:
                feats.append('explicit_del_depth=%d' % min(len(p), 4))
            if n.get('del') is False:
                feats.append('explicit_merge')
            if n.get('vdel'):
                feats.append('valueless_del')
            if n['t'] == 'sp':
                feats.append('clear')
            if n.get('prio') is not None:
                feats.append('priority_tag')
    feats = sorted(set(feats))
    feats.append('expect_' + (exp[0] if exp[0] == 'ok' else exp[1]))
    got = lib.outcome(lambda: _native(lib.merged(texts)))
    vio = []
    if exp[0] == 'ok':
        if got[0] != 'ok':
            vio.append({'mech': 'build-fails', 'what': f'model = {util.short(exp[1], 300)} but build {lib.describe(got)}; texts={texts!r}'})
        elif util.typed(got[1]) != util.typed(exp[1]):
            vio.append({'mech': 'differs-from-deletion-model', 'what': f'build = {util.short(got[1], 400)} but the model gives {util.short(exp[1], 400)}; texts={texts!r}'})
    else:
        if got[0] == 'ok':
            vio.append({'mech': 'missing-error', 'what': f'model expects {exp[1]} but build succeeded with {util.short(got[1], 300)}; texts={texts!r}'})
        elif lib.err_kind(got[1]) != exp[1]:
            vio.append({'mech': 'wrong-error-class', 'what': f'model expects {exp[1]}, build {lib.describe(got)}; texts={texts!r}'})
    # model-free cross-check: wrapped under extra keys
    if got[0] == 'ok' and got[1]:
        w = lib.outcome(lambda: _native(lib.merged(case['wrapped'])))
        want = got[1]
        for k in reversed(case['prefix']):
            want = {k: want}
        if w[0] != 'ok' or util.typed(w[1]) != util.typed(want):
            if not c05._root_emptied(texts):
                vio.append({'mech': 'nested-differs-from-top-level', 'what': f'top-level result {util.short(got[1], 300)} but wrapped under {case["prefix"]}: {lib.describe(w)}; texts={texts!r}'})
    res = {'status': 'violation' if vio else 'ok', 'nontrivial': _deleting_meets_old(docs), 'feats': feats, 'sig': util.sig(texts), 'evals': 2}
    if vio:
        res['violations'] = vio
    return res
