"""C17 - node containers stay consistent under any sequence of API operations.

Invariant-at-a-hook monitor: after every public operation of a generated
sequence the structural walker (monitors.treesan) runs at the quiescent point,
and both views are compared with a reference Python dict/list that underwent
the same operation (failed operations included: state unchanged, exception
class as the builtin's where the operation mirrors a builtin).  icontract
postconditions on NodePath.join_path/get_list_path and ConfigList._validate_index
run on every call the workload provokes.
"""
import copy

from .. import util, monitors, lib, env

ID = 'C17'
NEED_DEPS = True
LEVEL = 'exploration'
TECHNIQUE = 'runtime monitoring: structural invariant walker at quiescent points after every operation + reference dict/list model + icontract postconditions on path/index helpers'
LEVEL_TEXT = ('Held on the generated operation sequences only: 1-40 operations drawn from exactly the statement\'s list (item/attribute set and delete, append, insert, '
              'extend, remove, pop, update, setdefault, clear, ayns.set_child/remove_child/rename_child) with in-range, boundary, out-of-range and negative '
              'indices, missing keys, underscore keys, nested plain values and pre-built nodes, on random starting trees built through the API and through YAML; '
              'the final tree is also evaluated and compared with the reference.')
LEVEL_NOTE = ('Trusted: the walker in monitors.py and the reference semantics in c17.py. ayns.set_child on a list with an index beyond the end is specified by the '
              'library only (clamps to append): there only the invariants are checked and the reference is re-synchronised (counted).')
RULE = ('seeded starting tree + operation sequence; non-trivial = at least 3 operations of which one mutates a list and one a mapping; distinct = hash of the case')
ASSUMPTIONS = ['reference semantics of the ayns child API on mappings: set_child = item assignment, remove_child = item deletion, rename_child = move the entry under the new key']
TIERS = {'quick': {'cases': 4000, 'budget': 60}, 'thorough': {'cases': 150000, 'budget': 900}}
MIN_COUNTERS = {'contract_evaluations': 1}

_contract = {'n': 0, 'fail': [], 'known': []}

KEYS = ['a', 'b', 'c', '_u', 'k1', 'x_y', 7, 0, 1, 'a.b', 'x-y', -1, -3]        # (negative integers are ordinary keys of a mapping: nothing counts from the end there)
RESERVED = ['items', 'keys', 'pop', 'update', 'ayns']        # names of class attributes: refused as new keys by design (C01), whatever the operation
RENAME_TO = KEYS + RESERVED[:3]


KNOWN_PATH = 'path-text-grammar-cannot-express-non-identifier-key'


class ContractBroken(AssertionError):
    pass


def init(tier):
    """M-contracts: icontract postconditions on the real pure helpers"""
    import icontract
    from awesomeyaml.nodes.node_path import NodePath
    from awesomeyaml.nodes.list import ConfigList

    def index_in_range(self, index, result, strict=True):
        _contract['n'] += 1
        return isinstance(result, int) and 0 <= result <= len(self) and (not strict or result < len(self))

    ConfigList._validate_index = icontract.ensure(index_in_range, error=lambda self, index, result: ContractBroken(
        f'_validate_index({index!r}) on a list of {len(self)} returned {result!r}'))(ConfigList._validate_index)

    orig_join = NodePath.join_path.__func__

    def join_path(cls, path_list):
        ret = orig_join(cls, path_list)
        _contract['n'] += 1
        comps = list(path_list)
        if all((isinstance(c, str) and monitors._is_simple(c)) or (type(c) is int and c >= 0) for c in comps):
            back = list(cls.split_path(ret)) if ret else []
            if back != comps:
                _contract['fail'].append(f'join_path({comps!r}) = {ret!r} splits back into {back!r}')
        elif all(isinstance(c, str) or (type(c) is int and c >= 0) for c in comps):
            # keys the path grammar has no spelling for (recorded finding): only [A-Za-z0-9_]+ names and [i] indices can be written
            try:
                back = list(cls.split_path(ret)) if ret else []
            except Exception as e:
                back = f'{type(e).__name__}: {e}'
            if back != comps:
                _contract['known'].append(f'join_path({comps!r}) = {ret!r} splits back into {back!r}')
        return ret
    NodePath.join_path = classmethod(join_path)
    return {'contracts': ['ConfigList._validate_index result in 0..len (icontract.ensure)', 'NodePath.join_path/split_path round trip']}


def finish():
    return {'contract_evaluations': _contract['n']}


# ------------------------------------------------------------------ generation
def rand_value(rng, depth=2):
    r = rng.random()
    if depth <= 0 or r < 0.55:
        return rng.choice([0, 1, -5, 2.5, True, False, None, '', 'x', 'hello', 'v%d' % rng.randrange(1000)])
    if r < 0.8:
        return {rng.choice(['a', 'b', 'c', '_u']): rand_value(rng, depth - 1) for _ in range(rng.randrange(0, 3))}
    return [rand_value(rng, depth - 1) for _ in range(rng.randrange(0, 4))]


def rand_tree(rng, depth=3):
    d = {}
    for _ in range(rng.randrange(1, 5)):
        k = rng.choice(['a', 'b', 'c', '_u', 'k1'])
        r = rng.random()
        if depth > 0 and r < 0.35:
            d[k] = rand_tree(rng, depth - 1)
        elif r < 0.7:
            d[k] = [rand_value(rng, 1) for _ in range(rng.randrange(0, 5))]
        else:
            d[k] = rand_value(rng, 0)
    return d


DICT_OPS = ['setitem', 'setitem', 'delitem', 'setattr', 'delattr', 'update', 'update_kw', 'update_only_kw', 'setdefault', 'pop', 'pop_default', 'clear',
            'set_child', 'remove_child', 'rename_child', 'shallow_copy', 'clear_children', 'setdefault_novalue']
LIST_OPS = ['setitem', 'setitem', 'delitem', 'append', 'append', 'insert', 'insert', 'extend', 'remove', 'pop', 'pop_index', 'clear',
            'set_child', 'remove_child', 'rename_child', 'extend_self', 'shallow_copy', 'clear_children']


def gen_case(rng, tier):
    tree = rand_tree(rng, rng.choice([1, 2, 3]))
    n = rng.choice([1, 3, 5, 8, 12, 20, 40])
    ops = []
    for _ in range(n):
        ops.append({'sel': rng.random(), 'kind': rng.choice(['dict', 'list', 'list']), 'dop': rng.choice(DICT_OPS), 'lop': rng.choice(LIST_OPS),
                    'kmode': rng.choice(['existing', 'existing', 'new', 'missing']), 'imode2': rng.choice(['in', 'end', 'oob', 'neg']), 'imode': rng.choice(['in', 'in', 'neg', 'end', 'oob', 'negoob', 'bad']),
                    'r': rng.random(), 'r2': rng.random(), 'value': rand_value(rng), 'wrap': rng.random() < 0.3, 'refuse': rng.random() < 0.08,
                    'values': [rand_value(rng, 1) for _ in range(rng.randrange(0, 4))]})
    return {'tree': tree, 'via': rng.choice(['api', 'api', 'yaml']), 'ops': ops}


# ------------------------------------------------------------------ observation
def native(n):
    """plain data of a node tree read through the dict/list *views*"""
    from awesomeyaml.nodes.node import ConfigNode
    if isinstance(n, dict) and isinstance(n, ConfigNode):
        return {monitors._k(k): native(v) for k, v in dict.items(n)}
    if isinstance(n, list) and isinstance(n, ConfigNode):
        return [native(v) for v in list.__iter__(n)]
    if isinstance(n, ConfigNode):
        return n.ayns.native_value
    return ('RAW', n)


def containers(ref, path=()):
    out = [(path, ref)] if isinstance(ref, (dict, list)) else []
    if isinstance(ref, dict):
        for k, v in ref.items():
            out += containers(v, path + (k,))
    elif isinstance(ref, list):
        for i, v in enumerate(ref):
            out += containers(v, path + (i,))
    return out


def pick_index(op, n):
    m = op['imode']
    if m == 'in':
        return int(op['r'] * n) if n else 0
    if m == 'neg':
        return -1 - int(op['r'] * n) if n else -1
    if m == 'end':
        return n
    if m == 'oob':
        return n + 1 + int(op['r'] * 3)
    if m == 'negoob':
        return -n - 1 - int(op['r'] * 3)
    return 'x'


def pick_key(op, d):
    if op['kmode'] == 'existing' and d:
        ks = list(d)
        return ks[int(op['r'] * len(ks))]
    if op['kmode'] == 'new':
        return KEYS[int(op['r'] * len(KEYS))]
    return 'zz%d' % int(op['r'] * 5)


class Resync(Exception):
    pass


def apply_ref(kind, name, ref, key, val, vals, op):
    """perform the operation on the reference builtin; returns the reference return value (or raises)"""
    if kind == 'dict':
        if key in RESERVED and (name in ('setitem', 'setattr', 'set_child') or name in ('setdefault', 'setdefault_novalue') and key not in ref):
            raise ValueError('reserved name')
        if name in ('setitem', 'setattr', 'set_child'):
            ref[key] = val
            return None
        if name in ('delitem', 'delattr'):
            del ref[key]
            return None
        if name == 'remove_child':
            return ref.pop(key)
        if name == 'update':
            ref.update({key: val, 'b': vals})
            return None
        if name == 'update_kw':
            ref.update({key: val}, a=vals)
            return None
        if name == 'update_only_kw':
            ref.update(a=val, c=vals)
            return None
        if name == 'setdefault':
            return ref.setdefault(key, val)
        if name == 'setdefault_novalue':
            return ref.setdefault(key)
        if name == 'clear_children':
            ref.clear()
            return None
        if name == 'pop':
            return ref.pop(key)
        if name == 'pop_default':
            return ref.pop(key, 'dflt')
        if name == 'clear':
            ref.clear()
            return None
        if name == 'rename_child':
            new = RENAME_TO[int(op['r2'] * len(RENAME_TO))]
            if key not in ref or new in ref or new in RESERVED:
                raise ValueError('rename')
            ref[new] = ref.pop(key)
            return None
    else:
        if name == 'rename_child':
            # the children of a list are numbered by position: there is no name to give, the only consistent outcome is a refusal
            raise ValueError('rename')
        if name == 'setitem':
            ref[key] = val
            return None
        if name == 'delitem':
            del ref[key]
            return None
        if name == 'append':
            ref.append(val)
            return None
        if name == 'insert':
            ref.insert(key, val)
            return None
        if name == 'extend':
            ref.extend(vals)
            return None
        if name == 'extend_self':
            ref.extend(list(ref))          # (as in python: nested containers are the same objects at both positions afterwards)
            return None
        if name == 'remove':
            ref.remove(val)
            return None
        if name == 'pop':
            return ref.pop()
        if name == 'pop_index':
            return ref.pop(key)
        if name in ('clear', 'clear_children'):
            ref.clear()
            return None
        if name == 'set_child':
            if not isinstance(key, int):
                raise TypeError('index')
            n = len(ref)
            if -n <= key < n:
                ref[key] = val
            elif key == n:
                ref.append(val)
            else:
                raise Resync()
            return None
        if name == 'remove_child':
            if not isinstance(key, int):
                raise TypeError('index')
            return ref.pop(key)
    raise KeyError(name)


def apply_real(kind, name, node, key, val, vals, op):
    if kind == 'dict':
        if name == 'setitem':
            node[key] = val
        elif name == 'setattr':
            setattr(node, key, val)
        elif name == 'set_child':
            node.ayns.set_child(key, val)
        elif name == 'delitem':
            del node[key]
        elif name == 'delattr':
            delattr(node, key)
        elif name == 'remove_child':
            return node.ayns.remove_child(key)
        elif name == 'update':
            node.update({key: val, 'b': vals})
        elif name == 'update_kw':
            node.update({key: val}, a=vals)
        elif name == 'update_only_kw':
            node.update(a=val, c=vals)
        elif name == 'setdefault':
            return node.setdefault(key, val)
        elif name == 'setdefault_novalue':
            return node.setdefault(key)
        elif name == 'clear_children':
            node.ayns.clear()
        elif name == 'pop':
            return node.pop(key)
        elif name == 'pop_default':
            return node.pop(key, 'dflt')
        elif name == 'clear':
            node.clear()
        elif name == 'rename_child':
            node.ayns.rename_child(key, RENAME_TO[int(op['r2'] * len(RENAME_TO))])
    else:
        if name == 'rename_child':
            node.ayns.rename_child(key, pick_index(dict(op, r=op['r2'], imode=op.get('imode2', 'end')), len(node)))
            return None
        if name == 'setitem':
            node[key] = val
        elif name == 'delitem':
            del node[key]
        elif name == 'append':
            node.append(val)
        elif name == 'insert':
            node.insert(key, val)
        elif name == 'extend':
            node.extend(vals)
        elif name == 'extend_self':
            _bounded(lambda: node.extend(node), 0.3)
        elif name == 'remove':
            node.remove(val)
        elif name == 'pop':
            return node.pop()
        elif name == 'pop_index':
            return node.pop(key)
        elif name == 'clear':
            node.clear()
        elif name == 'clear_children':
            node.ayns.clear()
        elif name == 'set_child':
            node.ayns.set_child(key, val)
        elif name == 'remove_child':
            return node.ayns.remove_child(key)
    return None


class Hang(Exception):
    pass


def _not_a_config_value():
    """a plain function: the node layer cannot wrap it (nodes subclass the type of their value) and refuses it"""


REFUSABLE = ('setitem', 'setattr', 'set_child', 'append', 'insert')


def _bounded(fn, seconds):
    """run fn under a short interval timer of its own: an operation that does not come back is a finding, not a case time-out"""
    import signal
    old_handler = signal.getsignal(signal.SIGALRM)
    old_left, _ = signal.getitimer(signal.ITIMER_REAL)

    def on_alarm(signum, frame):
        raise Hang(f'operation did not return within {seconds} s')
    signal.signal(signal.SIGALRM, on_alarm)
    signal.setitimer(signal.ITIMER_REAL, seconds)
    try:
        return fn()
    finally:
        signal.setitimer(signal.ITIMER_REAL, 0)
        signal.signal(signal.SIGALRM, old_handler)
        if old_left:
            signal.setitimer(signal.ITIMER_REAL, max(0.05, old_left - seconds))


MIRRORS_BUILTIN = {'setitem', 'delitem', 'append', 'insert', 'extend', 'extend_self', 'remove', 'pop', 'pop_index', 'pop_default', 'clear', 'update',
                   'update_kw', 'update_only_kw', 'setdefault', 'setdefault_novalue'}


def run(case):
    from awesomeyaml.nodes.node import ConfigNode
    from awesomeyaml.nodes.dict import ConfigDict
    from awesomeyaml.eval_context import EvalContext
    ref = copy.deepcopy(case['tree'])
    if case['via'] == 'yaml':
        import yaml as pyyaml
        from awesomeyaml import yaml as ayy
        root = list(ayy.parse(pyyaml.safe_dump(ref, default_flow_style=True, sort_keys=False)))[0]
    else:
        root = ConfigDict(copy.deepcopy(ref))
    feats = ['via_' + case['via']]
    vio = []
    probs = monitors.treesan(root)
    if probs:
        vio.append({'mech': 'inconsistent-after-construction', 'what': f'freshly built tree {ref!r}: {probs[0]}'})
    did_list = did_dict = False
    resync = 0
    history = []
    sides = []
    for step, op in enumerate(case['ops']):
        if vio:
            break
        conts = [c for c in containers(ref) if isinstance(c[1], dict if op['kind'] == 'dict' else list)]
        if not conts:
            conts = containers(ref)
        path, rcont = conts[int(op['sel'] * len(conts))]
        kind = 'dict' if isinstance(rcont, dict) else 'list'
        name = op['dop'] if kind == 'dict' else op['lop']
        try:
            node = root.ayns.get_node(list(path)) if path else root
        except Exception as e:
            vio.append({'mech': 'node-unreachable', 'what': f'step {step}: container at {path!r} exists in the reference but get_node raises {e!r}; history={history!r}'})
            break
        if kind == 'dict':
            key = pick_key(op, rcont)
            if name in ('setitem', 'set_child', 'setdefault', 'setdefault_novalue') and op['kmode'] == 'new' and op['r2'] < 0.12:
                key = RESERVED[int(op['r'] * len(RESERVED))]
            if key in RESERVED and name in ('update', 'update_kw'):
                name = 'setitem'
            if name in ('setattr', 'delattr') and not (isinstance(key, str) and monitors._is_simple(key) and not key.startswith('_')):
                name = 'setitem' if name == 'setattr' else 'delitem'
        else:
            key = pick_index(op, len(rcont))
            if name == 'extend_self' and any(isinstance(x, (dict, list)) for x in rcont):
                name = 'extend'          # (with nested containers both positions would hold the same objects afterwards, as in python: not what is tested here)
        if name == 'shallow_copy':
            # copy.copy(container): a container of its own over the same child nodes; whatever happens to the original afterwards,
            # the copy's two views keep agreeing with each other
            try:
                sides.append((list(path), kind, copy.copy(node)))
                feats.append(f'{kind}.shallow_copy')
            except Exception as e:
                vio.append({'mech': 'shallow-copy-raises', 'what': f'step {step}: copy.copy of the container at {list(path)!r} raises {type(e).__name__}: {e}; history={history!r}; start={case["tree"]!r}'})
            continue
        val = copy.deepcopy(op['value'])
        if kind == 'list' and name == 'remove' and rcont and op['r2'] < 0.7:
            val = copy.deepcopy(rcont[int(op['r'] * len(rcont))])
        vals = copy.deepcopy(op['values'])
        rval = ConfigNode(copy.deepcopy(val)) if op['wrap'] else copy.deepcopy(val)
        before = copy.deepcopy(ref)
        history.append((list(path), kind, name, key, val))
        feats.append(f'{kind}.{name}')
        # reference
        try:
            exp = ('ok', apply_ref(kind, name, rcont, key, val, vals, op))
        except Resync:
            exp = ('resync', None)
        except Exception as e:
            exp = ('err', e)
            # builtins may have partially applied nothing; restore to be safe
            ref = before
        if op.get('refuse') and name == 'extend' and exp[0] == 'ok' and kind == 'list':
            # extend() with a value in the middle which the node layer refuses: like list.extend over an iterator that fails half-way,
            # what came before the failure is in (in both views), the rest is not
            cut = int(op['r2'] * (len(vals) + 1))
            ref = before
            _cont = ref
            for c in path:
                _cont = _cont[c]
            _cont.extend(copy.deepcopy(vals[:cut]))
            vals = vals[:cut] + [_not_a_config_value] + vals[cut:]
            exp = ('partial', None)
            history[-1] = (list(path), kind, name, key, f'<{cut} value(s), a function object, then more>')
            feats.append('refused_value_inside:list.extend')
        if op.get('refuse') and name in REFUSABLE and exp[0] == 'ok':
            # the same (valid) operation, but with a value the node layer refuses: it has to fail as a whole, nothing may have moved
            ref = before
            exp = ('refuse', None)
            rval = _not_a_config_value
            history[-1] = (list(path), kind, name, key, '<a function object>')
            feats.append(f'refused_value:{kind}.{name}')
        # real
        try:
            got = ('ok', apply_real(kind, name, node, key, rval, vals, op))
        except Exception as e:
            got = ('err', e)
        if got[0] == 'err' and isinstance(got[1], Hang):
            vio.append({'mech': 'does-not-terminate:' + f'{kind}.{name}', 'what': f'step {step}: {kind}.{name} on the container at {list(path)!r} ({len(rcont)} element(s) before): {got[1]}; history={history!r}; start={case["tree"]!r}'})
            break
        did_list |= kind == 'list' and got[0] == 'ok'
        did_dict |= kind == 'dict' and got[0] == 'ok'
        where = f'step {step}: {kind}.{name}(key={key!r}, value={history[-1][4]!r}) on the container at {list(path)!r}'
        probs = monitors.treesan(root)
        if probs:
            vio.append({'mech': 'views-disagree:' + f'{kind}.{name}', 'what': f'{where}: {probs[0]}; history={history!r}; start={case["tree"]!r}'})
            break
        for spath, skind, side in sides:
            probs = monitors.treesan(side)
            if probs:
                vio.append({'mech': 'views-disagree-in-shallow-copy', 'what': f'{where}: the shallow copy taken earlier of the container at {spath!r}: {probs[0]}; history={history!r}; start={case["tree"]!r}'})
                break
        if vio:
            break
        if exp[0] == 'partial':
            if got[0] == 'ok':
                feats.append('refused_value_accepted')
                break
            now = native(root)
            if util.typed(now, ordered_maps=True) != util.typed(ref, ordered_maps=True):
                vio.append({'mech': 'failed-operation-changed-tree:' + f'{kind}.{name}', 'what': f'{where}: extend failed at the refused value ({type(got[1]).__name__}); the tree is now {now!r}, expected (the values before it appended, nothing else) {ref!r}; history={history!r}; start={case["tree"]!r}'})
                break
            continue
        if exp[0] == 'refuse':
            if got[0] == 'ok':
                feats.append('refused_value_accepted')          # (a library that can hold such values: nothing to compare the rest of the history with)
                break
            now = native(root)
            if util.typed(now, ordered_maps=True) != util.typed(ref, ordered_maps=True):
                vio.append({'mech': 'failed-operation-changed-tree:' + f'{kind}.{name}', 'what': f'{where}: the node refused the value ({type(got[1]).__name__}) but the tree is now {now!r}, before it was {ref!r}; history={history!r}; start={case["tree"]!r}'})
                break
            continue
        if exp[0] == 'resync':
            resync += 1
            feats.append('resync')
            ref = _resync(root)
            continue
        if exp[0] == 'err':
            feats.append('expected_failure')
            if got[0] == 'ok':
                vio.append({'mech': 'no-error:' + f'{kind}.{name}', 'what': f'{where}: the builtin raises {type(exp[1]).__name__} but the node accepted it; history={history!r}; start={case["tree"]!r}'})
                break
            if name in MIRRORS_BUILTIN and type(got[1]) is not type(exp[1]) and not (isinstance(exp[1], (IndexError, KeyError, ValueError, TypeError)) and isinstance(got[1], type(exp[1]))):
                vio.append({'mech': 'wrong-exception:' + f'{kind}.{name}', 'what': f'{where}: builtin raises {type(exp[1]).__name__}, node raises {type(got[1]).__name__}: {got[1]}; history={history!r}'})
                break
        else:
            if got[0] == 'err':
                vio.append({'mech': 'unexpected-error:' + f'{kind}.{name}', 'what': f'{where}: valid for the builtin but the node raises {type(got[1]).__name__}: {got[1]}; history={history!r}; start={case["tree"]!r}'})
                break
            if name in ('pop', 'pop_index', 'pop_default', 'setdefault', 'setdefault_novalue', 'remove_child'):
                g = got[1]
                g = native(g) if isinstance(g, ConfigNode) else g
                if util.typed(g) != util.typed(exp[1]):
                    vio.append({'mech': 'wrong-return:' + f'{kind}.{name}', 'what': f'{where}: returned {g!r}, the builtin returns {exp[1]!r}; history={history!r}; start={case["tree"]!r}'})
                    break
        now = native(root)
        if util.typed(now, ordered_maps=True) != util.typed(ref, ordered_maps=True):
            vio.append({'mech': 'content-differs:' + f'{kind}.{name}', 'what': f'{where}: tree is now {now!r} but the reference is {ref!r}; history={history!r}; start={case["tree"]!r}'})
            break
    if not vio:
        # evaluation order is where a mis-ordered child table becomes user-visible
        try:
            ev = EvalContext().evaluate(root) if ref else {}
            if util.typed(_plain(ev), ordered_maps=True) != util.typed(ref, ordered_maps=True):
                vio.append({'mech': 'evaluation-differs', 'what': f'evaluated tree {_plain(ev)!r} differs from the reference {ref!r}; history={history!r}; start={case["tree"]!r}'})
        except Exception as e:
            vio.append({'mech': 'evaluation-fails', 'what': f'evaluating the tree raises {type(e).__name__}: {e}; reference {ref!r}; history={history!r}'})
    if _contract['fail']:
        vio.append({'mech': 'path-roundtrip-contract', 'what': _contract['fail'].pop()})
        _contract['fail'].clear()
    if _contract['known']:
        if not vio:
            vio.append({'mech': KNOWN_PATH, 'what': _contract['known'][-1]})
        del _contract['known'][:]
    res = {'status': 'violation' if vio else 'ok', 'nontrivial': len(case['ops']) >= 3 and did_list and did_dict, 'feats': sorted(set(feats)),
           'evals': max(1, len(history))}
    if vio:
        res['violations'] = vio[:1]
    return res


def _resync(root):
    v = native(root)
    return v


def _plain(v):
    if isinstance(v, dict):
        return {k: _plain(x) for k, x in v.items()}
    if isinstance(v, list):
        return [_plain(x) for x in v]
    return v
