"""C10 - every dynamic node is evaluated exactly once, independent of layout.

Unambiguous histories: every dynamic node calls a uniquely named recording
target, so the invocation log says which node ran and how often.  Consumers
(references, identity-call arguments, list/mapping members, !eval expressions
and f-strings reading top-level names) must hold the very same object; key
permutations of the documents must evaluate to equal configs; nodes overwritten
or deleted by later stages must never run.  A PY_START monitor on on_evaluate
counts evaluations per node object.
"""
import copy
import types
import random
import itertools

from .. import gen, emit, lib, util, monitors
from ..emit import M, L, S, SP
from . import c09

ID = 'C10'
LEVEL = 'exploration'
TECHNIQUE = 'runtime monitoring: exactly-once check over the invocation log of uniquely named recording targets, identity of results across consumers, per-node PY_START evaluation counter, key-permutation metamorphic relation'
LEVEL_TEXT = ('Held on the generated configs only: side-effecting !call / !eval producers (top level and nested in containers) consumed through every combination of !xref, '
              'call/bind arguments, list/mapping membership, !eval expressions and f-strings, with consumers placed before and after their targets and the targets\' containers; '
              'all permutations of <=4 top-level keys (3 random ones above); later stages overwrite / delete / clear random producers. Each surviving producer must be logged exactly once, '
              'deleted ones never, all consumers must hold the same object, and no node object may start on_evaluate twice.')
LEVEL_NOTE = 'Trusted: the invocation log of verif_targets. The dependency graph among consumers is acyclic (cycles are C09\'s subject).'
RULE = 'seeded producers/consumers/deletions; non-trivial = at least one producer with >=2 consumers or one deleted producer; distinct = hash of texts'
ASSUMPTIONS = ['recording targets are only reachable through the planted nodes']
TIERS = {'quick': {'cases': 2000, 'budget': 60}, 'thorough': {'cases': 60000, 'budget': 900}}
MIN_COUNTERS = {'on_evaluate_starts': 1}
_mon = {}
_counts = {'on_evaluate_starts': 0}
_per_node = {}
_observe_nodes = [True]
_route = ['config']


def _inner_function(f):
    while True:
        cells = [c.cell_contents for c in (getattr(f, '__closure__', None) or ()) if isinstance(c.cell_contents, types.FunctionType)]
        if not cells:
            return f
        f = cells[0]


def init(tier):
    from awesomeyaml.nodes.node import ConfigNode
    f = _inner_function(ConfigNode.ayns._names['on_evaluate'])
    m = monitors.EvalMonitor({'on_evaluate': f})

    def per_object(name, frame):
        if not _observe_nodes[0]:
            # (counting by node identity means holding on to the nodes: with lazily included files the point is that their trees are
            # NOT kept alive by anything but the evaluation itself)
            return
        node = frame.f_locals.get('self')
        _per_node[id(node)] = _per_node.get(id(node), 0) + 1
        _per_node.setdefault('keep', []).append(node)
    m.per_object = per_object
    m.start()
    _mon['m'] = m
    return None


def finish():
    return dict(_counts)


def gen_case(rng, tier):
    if rng.random() < 0.08:
        return gen_rec(rng)
    n_prod = rng.randrange(1, 6)
    prods = []           # {'key', 'path'(tuple), 'name', 'kind'}
    items = []
    for i in range(n_prod):
        r = rng.random()
        if r < 0.15:
            # a producer whose result is falsy (None / [] / {} / 0): "already evaluated" must not be confused with "evaluated to nothing"
            nm = rng.choice(['none', 'emptyl', 'emptyd', 'zero']) + f'_{i}' if False else rng.choice([f'none{i}', f'empty{i}l', f'empty{i}d', f'zero{i}'])
            items.append([f'p{i}', SP('call', func=f'verif_targets.{nm}', args=M([['x', S(i)]]))])
            prods.append({'path': (f'p{i}',), 'name': nm, 'top': f'p{i}', 'falsy': True})
        elif r < 0.45:
            items.append([f'p{i}', SP('call', func=f'verif_targets.r{i}', args=M([['x', S(i)]]))])
            prods.append({'path': (f'p{i}',), 'name': f'r{i}', 'top': f'p{i}'})
        elif r < 0.6:
            items.append([f'p{i}', SP('eval', code=f'import verif_targets\nverif_targets.r{i}({i})')])
            prods.append({'path': (f'p{i}',), 'name': f'r{i}', 'top': f'p{i}'})
        elif r < 0.8:
            items.append([f'box{i}', M([['a', SP('call', func=f'verif_targets.r{i}', args=M([['x', S(i)]]))], ['z', S(f'plain{i}', style='dq')]])])
            prods.append({'path': (f'box{i}', 'a'), 'name': f'r{i}', 'top': f'box{i}'})
        elif r < 0.9:
            items.append([f'box{i}', L([S(f'plain{i}', style='dq'), SP('call', func=f'verif_targets.r{i}', args=L([S(i)]))])])
            prods.append({'path': (f'box{i}', 1), 'name': f'r{i}', 'top': f'box{i}'})
        else:
            # a scalar dynamic node (!eval) as a direct element of a list
            items.append([f'box{i}', L([SP('eval', code=f'import verif_targets\nverif_targets.r{i}({i})'), S(f'plain{i}', style='dq')])])
            prods.append({'path': (f'box{i}', 0), 'name': f'r{i}', 'top': f'box{i}'})
    # producers that are arguments of a function node which a later stage re-targets (another function: the old arguments are dropped,
    # whatever their priority) or whose arguments it replaces (same function, default deletion)
    arg_prods = []
    for i in range(n_prod, n_prod + rng.choice([0, 0, 1, 2])):
        forced = rng.random() < 0.5
        pr = SP('call', func=f'verif_targets.r{i}', args=M([['x', S(i)]]))
        if forced:
            pr['prio'] = 1
        where = rng.choice(['kw', 'nested', 'pos'])
        args = {'kw': M([['p', pr], ['n', S(1)]]), 'nested': M([['opts', M([['p', pr]])], ['n', S(1)]]), 'pos': L([S(1), pr])}[where]
        items.append([f'host{i}', SP(rng.choice(['call', 'bind']), func=f'verif_targets.h{i}', args=args)])
        pp = {'path': (f'host{i}',) + {'kw': ('p',), 'nested': ('opts', 'p'), 'pos': (1,)}[where], 'name': f'r{i}', 'top': f'host{i}', 'arg_of': True, 'forced': forced}
        prods.append(pp)
        arg_prods.append(pp)
    # a list of producers from which a later stage removes several elements at once, addressing them by position in any key order
    lp_del = []
    if rng.random() < 0.25:
        m = rng.choice([3, 4, 5])
        base_i = n_prod + 10
        items.append(['lp', L([SP('call', func=f'verif_targets.r{base_i + k}', args=M([['x', S(k)]])) for k in range(m)])])
        lp_del = rng.sample(range(m), rng.choice([2, 2, 3]) if m > 3 else 2)
        rng.shuffle(lp_del)
        for k in range(m):
            prods.append({'path': ('lp', k), 'name': f'r{base_i + k}', 'top': 'lp', 'lp': True, 'lp_deleted': k in lp_del})
    # deletions by a later stage (only producers without consumers)
    deleted = [p for p in prods if p.get('arg_of') or p.get('lp_deleted') or (not p.get('lp') and rng.random() < 0.2)]
    alive = [p for p in prods if p not in deleted and not p.get('lp')]
    cons = []            # {'key', 'kind', 'of': producer path}
    n_cons = rng.choice([0, 1, 2, 3, 5, 8]) if alive else 0
    for j in range(n_cons):
        p = rng.choice(alive)
        tgt = gen.path_str(p['path'])
        kind = rng.choice(['xref', 'xref', 'idcall', 'eval_name', 'eval_container', 'fstr', 'list', 'xref_container', 'bind', 'posargs'])
        if p.get('falsy') and kind == 'fstr':
            kind = 'xref'            # a falsy result has no .name to format
        key = f'k{j}'
        if kind == 'xref':
            node = SP('xref', path=tgt)
        elif kind == 'xref_container':
            node = SP('xref', path=p['top'])
        elif kind == 'idcall':
            node = SP('call', func=f'verif_targets.id{j}', args=L([SP('xref', path=tgt)]))
        elif kind == 'bind':
            node = SP('bind', func=f'verif_targets.b{j}', args=M([['arg', SP('xref', path=tgt)]]))
        elif kind == 'posargs':
            # positions given by integer keys, written in any order (and mixed with names): the position is the key, not the place in the text
            pa = [[0, SP('xref', path=tgt)], [1, S(f'second{j}', style='dq')], [2, S(j)], ['named', S(1)]][:rng.choice([2, 3, 4, 4])]
            rng.shuffle(pa)
            node = SP('call', func=f'verif_targets.ordr{j}', args=M(pa))
        elif kind == 'eval_name':
            expr = p['top'] + ''.join(f'[{c!r}]' for c in p['path'][1:])
            node = SP('eval', code=expr)
        elif kind == 'eval_container':
            node = SP('eval', code=p['top'])
        elif kind == 'fstr':
            import json
            expr = p['top'] + ''.join(f'[{json.dumps(c)}]' for c in p['path'][1:])     # the !fstr form wraps the text in f'..': no single quotes inside
            node = SP('fstr', text='{' + expr + '.name}')
        else:
            node = L([SP('xref', path=tgt), S('filler', style='dq'), SP('xref', path=tgt)])
        cons.append({'key': key, 'kind': kind, 'of': list(p['path']), 'top': p['top']})
        items.append([key, node])
    if rng.random() < 0.35:
        # evaluations that overlap: a call whose target builds another config of its own
        items.append(['helper', SP('call', func=f'verif_targets.nested{rng.randrange(100)}', args=M([['x', S(1)]]))])
    rng.shuffle(items)
    doc = M(items)
    docs = [doc]
    if deleted:
        d2 = M([])
        if lp_del:
            keys = [(k - m if rng.random() < 0.3 else k) for k in lp_del]          # (some positions counted from the end)
            d2['items'].append(['lp', M([[k, S(None, vdel=True)] for k in keys])])
        for p in deleted:
            how = rng.choice(['scalar', 'vdel', 'clear_top', 'del_top'])
            if p.get('lp'):
                continue
            if p.get('arg_of'):
                i = p['name'][1:]
                same = not p['forced'] and rng.random() < 0.4
                d2['items'].append([p['top'], SP(rng.choice(['call', 'bind']), func=f'verif_targets.h{i}' if same else f'verif_targets.g{i}', args=M([['q', S(2)]]))])
                continue
            if how == 'scalar' or len(p['path']) == 1 and how in ('clear_top',):
                from .c16 import put
                put(d2, p['path'] if isinstance(p['path'][-1], str) else (p['top'],), S(424242))      # (a *string* merged onto a function node would rename its target, see C13)
            elif how == 'vdel':
                d2['items'].append([p['top'], S(None, vdel=True)])
            elif how == 'clear_top':
                d2['items'].append([p['top'], SP('clear')])
            else:
                d2['items'].append([p['top'], M([], **{'del': True}) if len(p['path']) > 1 else S(None, vdel=True)])
        seen = set()
        d2['items'] = [it for it in d2['items'] if not (it[0] in seen or seen.add(it[0]))]
        docs.append(d2)
    # permutations of the top-level keys of the first document
    keys = [k for k, _ in doc['items']]
    if len(keys) <= 4:
        perms = [list(p) for p in itertools.permutations(range(len(keys)))][1:]
    else:
        perms = []
        for _ in range(3):
            o = list(range(len(keys)))
            rng.shuffle(o)
            perms.append(o)
    style = rng.choice(['flow', 'block'])
    texts = [emit.emit(d, style) for d in docs]
    ptexts = []
    for o in perms:
        d = M([doc['items'][i] for i in o])
        ptexts.append([emit.emit(d, style)] + texts[1:])
    # ... and of the keys of every mapping below (nested mappings, argument mappings of function nodes)
    deep = copy.deepcopy(doc)
    for _, n in list(emit.walk(deep)):
        if n['t'] == 'map':
            rng.shuffle(n['items'])
    ptexts.append([emit.emit(deep, style)] + texts[1:])
    return {'route': rng.choice(['config', 'ctx']), 'texts': texts, 'perms': ptexts, 'prods': [{'path': list(p['path']), 'name': p['name'], 'top': p['top'], 'deleted': p in deleted, 'falsy': bool(p.get('falsy'))} for p in prods], 'cons': cons}


def _tag(v):
    import verif_targets
    if isinstance(v, verif_targets.Result):
        return ('R', v.name)
    if callable(v):
        return ('callable', getattr(v, '__qualname__', '?'))
    return None


def _plain(v):
    if isinstance(v, dict):
        return {k: _plain(x) for k, x in v.items()}
    if isinstance(v, list):
        return [_plain(x) for x in v]
    return v


_reused_ctx = [None]


def evaluate(texts):
    import verif_targets
    ctx = None
    if _reused_ctx[0] is not None:
        # one evaluation context handed to several builds, one after another: this build was preceded by one of the same sources
        # (same paths, objects of its own) - nothing of it may be seen now
        from awesomeyaml.eval_context import EvalContext
        ctx = EvalContext()
        lib.outcome(lambda: lib.build_via(_reused_ctx[0], _route[0], eval_ctx=ctx))
    verif_targets.reset()
    _per_node.clear()
    got = lib.outcome(lambda: lib.build_via(texts, _route[0], eval_ctx=ctx))
    log = list(verif_targets.LOG)
    twice = [k for k, v in _per_node.items() if k != 'keep' and v > 1]
    _counts['on_evaluate_starts'] += sum(v for k, v in _per_node.items() if k != 'keep')
    twice_desc = [repr(n) for n in _per_node.get('keep', []) if id(n) in twice][:3]
    _per_node.clear()
    return got, log, twice_desc


def gen_rec(rng):
    """several lazily included files (!rec), each with a dynamic node of its own: their trees come into being (and go away) while the
    evaluation is under way"""
    k = rng.choice([2, 3, 4, 6, 9, 12])
    files = {f'part{i}.yaml': f'obj: !call:verif_targets.r{100 + i} {{x: {i}}}\nlabel: "part{i}"\nnum: {i}\nmore: [{i}, "e{i}", {{z: {i}}}]\n' for i in range(k)}
    items = []
    for i in range(k):
        items.append(f'part{i}: !rec part{i}.yaml')
        if rng.random() < 0.6:
            items.append(f"use{i}: !eval \"part{i}['obj']\"")
        if rng.random() < 0.3:
            items.append(f"again{i}: !eval \"[part{i}['obj'], part{i}['num']]\"")
    rng.shuffle(items)
    return {'kind': 'rec', 'k': k, 'files': files, 'texts': ['\n'.join(items) + '\n'], 'route': rng.choice(['config', 'ctx'])}


def run_rec(case):
    import os
    import shutil
    import tempfile
    import verif_targets
    root = tempfile.mkdtemp(prefix='verif_c10_')
    cwd0 = os.getcwd()
    vio = []
    try:
        for fn, txt in case['files'].items():
            with open(os.path.join(root, fn), 'w') as f:
                f.write(txt)
        os.chdir(root)
        _route[0] = case.get('route', 'config')
        _observe_nodes[0] = False
        got, log, twice = evaluate(case['texts'])
    finally:
        _observe_nodes[0] = True
        os.chdir(cwd0)
        shutil.rmtree(root, ignore_errors=True)
    texts = case['texts']
    if got[0] == 'err':
        vio.append({'mech': 'build-fails', 'what': f'{case["k"]} lazily included files: the build {lib.describe(got)}; texts={texts!r}'})
    else:
        cfg = got[1]
        names = [e[0] for e in log]
        for i in range(case['k']):
            part = cfg.get(f'part{i}')
            n = names.count(f'r{100 + i}')
            if n != 1:
                vio.append({'mech': 'not-exactly-once', 'what': f'the !call node of part{i}.yaml ran {n} time(s) (log {names}); texts={texts!r}'})
                break
            ok = isinstance(part, dict) and isinstance(part.get('obj'), verif_targets.Result) and part['obj'].name == f'r{100 + i}' and part.get('label') == f'part{i}' \
                and part.get('num') == i and part.get('more') == [i, f'e{i}', {'z': i}]
            if not ok:
                vio.append({'mech': 'lazily-included-content-wrong', 'what': f'part{i} evaluated to {util.short(_plain(part), 300)}; texts={texts!r}'})
                break
            if f'use{i}' in cfg and cfg[f'use{i}'] is not part['obj']:
                vio.append({'mech': 'consumers-see-different-objects:rec', 'what': f'use{i} holds {cfg[f"use{i}"]!r}, part{i}.obj holds {part["obj"]!r}; texts={texts!r}'})
                break
            if f'again{i}' in cfg and not (cfg[f'again{i}'][0] is part['obj'] and cfg[f'again{i}'][1] == i):
                vio.append({'mech': 'consumers-see-different-objects:rec', 'what': f'again{i} holds {cfg[f"again{i}"]!r}; texts={texts!r}'})
                break
        if twice and not vio:
            vio.append({'mech': 'node-evaluated-twice', 'what': f'on_evaluate started more than once for {twice}; texts={texts!r}'})
    res = {'status': 'violation' if vio else 'ok', 'nontrivial': True, 'feats': ['lazily_included_files=%d' % case['k']], 'sig': util.sig(texts), 'evals': 1}
    if vio:
        res['violations'] = vio[:2]
    return res


def run(case):
    if case.get('kind') == 'rec':
        return run_rec(case)
    texts = case['texts']
    _route[0] = case.get('route', 'config')
    _reused_ctx[0] = texts if util.sig(texts)[0] in '0123' else None
    try:
        return _run(case, texts)
    finally:
        _reused_ctx[0] = None


def _run(case, texts):
    got, log, twice = evaluate(texts)
    vio = []
    feats = ['producers=%d' % len(case['prods']), 'consumers=%d' % min(len(case['cons']), 8)] + ['consumer_' + c['kind'] for c in case['cons']] + (['context_used_for_an_earlier_build'] if _reused_ctx[0] else [])
    if got[0] == 'err':
        vio.append({'mech': 'build-fails', 'what': f'acyclic producer/consumer graph but the build {lib.describe(got)}; texts={texts!r}'})
    else:
        cfg = got[1]
        names = [e[0] for e in log if not e[0].startswith('inner_') and not e[0].startswith('nested')]
        inner = [e[0] for e in log if e[0].startswith('inner_')]
        if len(inner) != len(set(inner)) * 1 or any(inner.count(x) != 1 for x in set(inner)):
            vio.append({'mech': 'nested-build-not-exactly-once', 'what': f'a config built inside a target ran its own dynamic node {[(x, inner.count(x)) for x in set(inner)]} times; texts={texts!r}'})
        if 'helper' in cfg and not cfg['helper'].kwargs.get('inner_ok'):
            vio.append({'mech': 'nested-build-consumers-differ', 'what': f'inside a nested build a reference did not alias its target; texts={texts!r}'})
        for p in case['prods']:
            n = names.count(p['name'])
            if p['deleted']:
                feats.append('deleted_producer')
                if n:
                    vio.append({'mech': 'deleted-node-evaluated', 'what': f'producer {p["name"]} at {p["path"]} was overwritten/deleted by a later stage but ran {n} time(s); texts={texts!r}'})
            elif n != 1:
                vio.append({'mech': 'not-exactly-once', 'what': f'producer {p["name"]} at {p["path"]} ran {n} times (log {names}); consumers={case["cons"]!r}; texts={texts!r}'})
        if twice:
            vio.append({'mech': 'node-evaluated-twice', 'what': f'on_evaluate started more than once for {twice}; texts={texts!r}'})
        if not vio:
            for c in case['cons']:
                want = c09.value_at(cfg, gen.path_str(tuple(c['of'])))
                have = cfg[c['key']]
                ok = True
                immut = want is None or (isinstance(want, int) and not isinstance(want, bool))
                if c['kind'] in ('xref', 'idcall', 'eval_name'):
                    ok = have is want
                elif c['kind'] in ('xref_container', 'eval_container'):
                    ok = have is cfg[c['top']]
                elif c['kind'] == 'list':
                    ok = have[0] is want and have[2] is want
                elif c['kind'] == 'bind':
                    ok = have.keywords.get('arg') is want
                elif c['kind'] == 'fstr':
                    ok = have == want.name
                if not ok:
                    vio.append({'mech': 'consumers-see-different-objects:' + c['kind'], 'what': f'consumer {c["key"]} ({c["kind"]} of {c["of"]}) holds {have!r}, the producer position holds {want!r}; texts={texts!r}'})
                    break
        if not vio:
            base = util.typed(_plain(cfg), other=_tag)
            for pt in case['perms']:
                g2, log2, tw2 = evaluate(pt)
                feats.append('permutation')
                if g2[0] != 'ok' or util.typed(_plain(g2[1]), other=_tag) != base:
                    vio.append({'mech': 'key-order-changes-result', 'what': f'texts={texts!r} -> {util.short(_plain(cfg), 300)} but with permuted keys {pt[0]!r} -> {lib.describe(g2) if g2[0] == "err" else util.short(_plain(g2[1]), 300)}'})
                    break
                if sorted(e[0] for e in log2 if not e[0].startswith('inner_') and not e[0].startswith('nested')) != sorted(names):
                    vio.append({'mech': 'key-order-changes-invocations', 'what': f'invocations {sorted(names)} vs {sorted(e[0] for e in log2 if not e[0].startswith("inner_") and not e[0].startswith("nested"))} after permuting keys; texts={pt!r}'})
                    break
    multi = any(sum(1 for c in case['cons'] if c['of'] == p['path']) >= 2 for p in case['prods'])
    res = {'status': 'violation' if vio else 'ok', 'nontrivial': multi or any(p['deleted'] for p in case['prods']), 'feats': sorted(set(feats)),
           'sig': util.sig(texts), 'evals': 1 + len(case['perms'])}
    if vio:
        res['violations'] = vio[:2]
    return res
