"""C02 - merging plain documents is a right-biased recursive mapping update.

Monitor shape: history + executable model.  The history is a sequence of
tag-free documents; the oracle is an independent left fold over what PyYAML's
safe loader makes of the very same texts.  The same sequence is delivered both
as n sources and as one multi-document source.
"""
import copy
import random

import yaml as pyyaml

from .. import gen, emit, lib, util

ID = 'C02'
LEVEL = 'exploration'
TECHNIQUE = 'runtime monitoring: differential execution of the real merge against an executable reference fold over PyYAML-loaded data'
LEVEL_TEXT = ('Held on the generated histories only: thousands (quick) to ~10^5 (thorough) seeded document sequences are built with the '
              'real library and compared, type-exactly, with an independent 15-line recursive update; both delivery forms (n sources, '
              'one multi-document source). Exploration is the right level: the input space is unbounded and the oracle is cheap.')
LEVEL_NOTE = 'Trusted: PyYAML safe_load as the reading of each tag-free text; the fold in c02.py as the reading of the statement; generator grammar bounds (depth<=5, <=6 stages, int/str keys).'
RULE = ('seeded random sequences of 1-6 tag-free mapping documents (small colliding key pool, int/str/_x keys, empty '
        'containers, dict<->list<->scalar type changes, mappings addressing valid and invalid list indices); a case is '
        'non-trivial when at least two stages write a common top-level key or the sequence must fail; distinct = hash of the texts')
ASSUMPTIONS = ['PyYAML safe_load of the same text is the reference reading of each document',
               'documents use only int and str keys other than attribute names of the node classes']
TIERS = {'quick': {'cases': 2400, 'budget': 60}, 'thorough': {'cases': 100000, 'budget': 900}}


class ModelMergeError(Exception):
    pass


def fold(acc, new):
    """the statement, executable: returns the merged value"""
    if isinstance(acc, dict) and isinstance(new, dict):
        for k, v in new.items():
            if k in acc:
                acc[k] = fold(acc[k], v)
            else:
                acc[k] = v
        return acc
    if isinstance(acc, list) and isinstance(new, dict):
        n = len(acc)
        for k in new:
            if not isinstance(k, int) or isinstance(k, bool) or not (-n <= k < n):
                raise ModelMergeError(f'mapping key {k!r} does not address an existing index of a list of {n}')
        for k, v in new.items():
            acc[k] = fold(acc[k], v)
        return acc
    return new


def model(datas):
    acc = copy.deepcopy(datas[0])
    for d in datas[1:]:
        acc = fold(acc, copy.deepcopy(d))
    return acc


def gen_case(rng, tier):
    n = rng.choice([1, 2, 2, 3, 3, 4, 5, 6])
    depth = rng.choice([2, 3, 4, 5])
    docs = gen.rand_sequence(rng, n, depth, kinds=('s', 's', 's', 'i'), hostile=rng.random() < 0.3,
                             marker=gen.Marker() if rng.random() < 0.6 else None)
    if rng.random() < 0.3:
        # a later stage repeating earlier content with scalars that are == but of another type (1 / 1.0 / True)
        src = copy.deepcopy(rng.choice(docs))
        for _, nd in emit.walk(src):
            if nd['t'] == 'sc' and rng.random() < 0.7:
                v = nd['v']
                if isinstance(v, bool):
                    nd['v'] = rng.choice([int(v), float(v)])
                elif isinstance(v, int) and v in (0, 1):
                    nd['v'] = rng.choice([bool(v), float(v)])
                elif isinstance(v, int) and abs(v) < 2 ** 50:
                    nd['v'] = float(v)
                elif isinstance(v, float) and v == v and abs(v) < 2 ** 50 and v == int(v):
                    nd['v'] = int(v)
        docs.insert(rng.randrange(1, len(docs) + 1), src)
    style = rng.choice(['flow', 'block', 'block'])
    seed = rng.randrange(1 << 30)
    texts = []
    for i, d in enumerate(docs):
        r2 = random.Random(seed + i)
        texts.append(emit.emit(d, style, flow_pred=lambda n: r2.random() < 0.3))
    return {'texts': texts}


def run(case):
    texts = case['texts']
    try:
        datas = [pyyaml.safe_load(t) for t in texts]
    except Exception as e:
        return {'status': 'skip', 'feats': ['emitter_unparsable']}
    if not all(isinstance(d, dict) for d in datas):
        return {'status': 'skip', 'feats': ['emitter_not_mapping']}
    try:
        exp = ('ok', model(datas))
    except ModelMergeError as e:
        exp = ('err', e)
    feats = ['stages=%d' % len(texts)]
    if exp[0] == 'err':
        feats.append('expect_MergeError')
    variants = {'sources': lambda: lib.build(texts)}
    if len(texts) > 1:
        variants['multidoc'] = lambda: lib.build([''.join(t if t.startswith('--- ') else '---\n' + t for t in texts)])
    if len(texts) >= 3:
        # one builder, built in between: k documents, build(), the rest, build() - still the same left-to-right fold
        k = 1 + int(util.sig(texts), 16) % (len(texts) - 1)

        def incremental():
            from awesomeyaml.builder import Builder
            from awesomeyaml.config import Config
            b = Builder()
            for t in texts[:k]:
                b.add_source(t, raw_yaml=True)
            b.build()
            for t in texts[k:]:
                b.add_source(t, raw_yaml=True)
            return Config(b.build())
        variants[f'built_after_{k}_then_all'] = incremental
    vio = []
    for name, fn in variants.items():
        got = lib.outcome(fn)
        if exp[0] == 'ok':
            if got[0] != 'ok':
                vio.append({'mech': classify(case, datas, exp, got), 'what': f'[{name}] fold is defined = {util.short(exp[1], 300)} but build {lib.describe(got)}'})
            elif util.typed(dict(got[1])) != util.typed(exp[1]):
                vio.append({'mech': classify(case, datas, exp, got),
                            'what': f'[{name}] build = {util.short(util.loose(got[1]), 400)} but the recursive update gives {util.short(exp[1], 400)}'})
        else:
            if got[0] == 'ok':
                vio.append({'mech': 'no-error-for-bad-list-index', 'what': f'[{name}] {exp[1]} but build succeeded with {util.short(util.loose(got[1]), 300)}'})
            elif lib.err_kind(got[1]) != 'MergeError':
                vio.append({'mech': 'wrong-error-class', 'what': f'[{name}] expected MergeError, build {lib.describe(got)}'})
    common = len(texts) > 1 and any(set(datas[i]) & set(datas[j]) for i in range(len(datas)) for j in range(i))
    if common:
        feats.append('collision')
    kinds = set()
    for d in datas:
        _kinds(d, kinds)
    feats.extend(sorted(kinds))
    res = {'status': 'violation' if vio else 'ok', 'nontrivial': bool(common or exp[0] == 'err'), 'feats': feats,
           'evals': len(variants)}
    if vio:
        res['violations'] = vio
    return res


def _kinds(d, out, depth=0):
    out.add('depth>=%d' % min(depth, 4))
    if isinstance(d, dict):
        if not d:
            out.add('empty_map')
        for k, v in d.items():
            out.add('key_' + type(k).__name__)
            if isinstance(k, str) and k.startswith('_'):
                out.add('key_underscore')
            _kinds(v, out, depth + 1)
    elif isinstance(d, list):
        if not d:
            out.add('empty_list')
        for v in d:
            _kinds(v, out, depth + 1)
    else:
        out.add('scalar_' + type(d).__name__)


def classify(case, datas, exp, got):
    return 'result-differs-from-fold'
