"""Canonical observations of real objects."""
from . import util


def node_kind(n):
    return type(n).__name__


def key_native(k):
    try:
        return k.ayns.native_value
    except AttributeError:
        return k


def tree_view(n, flags=('prio',), md=False, kinds=True):
    """nested view of an (un-evaluated) node tree: kind, chosen effective flags, content"""
    from awesomeyaml.nodes.composed import ComposedNode
    from awesomeyaml.nodes.function import FunctionNode
    d = {'kind': node_kind(n)} if kinds else {}
    if 'prio' in flags:
        d['prio'] = n.ayns.priority
    if 'del' in flags:
        d['del'] = bool(n.ayns.delete)
    if 'xdel' in flags:
        d['xdel'] = n.ayns.explicit_delete
    if 'new' in flags:
        d['new'] = bool(n.ayns.allow_new)
    if 'xnew' in flags:
        d['xnew'] = n._allow_new
    if 'safe' in flags:
        d['safe'] = bool(n.ayns.safe)
    if 'xsafe' in flags:
        d['xsafe'] = n._safe
    if 'src' in flags:
        d['src'] = n.ayns.source_file
    if md:
        d['md'] = util.typed(dict(n.ayns.metadata))
    if 'attrs' in flags:
        # public instance attributes (ref_point, filenames, persistent_namespace, ...)
        d['attrs'] = tuple(sorted((k, _attr_val(v)) for k, v in vars(n).items() if not k.startswith('_') and k != 'builder'))
    if isinstance(n, ComposedNode):
        if isinstance(n, FunctionNode):
            f = n._func
            d['func'] = f if isinstance(f, str) else getattr(f, '__name__', repr(f))
        ch = []
        for name, c in n.ayns.named_children():
            ch.append((util.typed(key_native(name)), tree_view(c, flags, md, kinds)))
        if isinstance(n, dict):
            ch.sort(key=lambda kv: repr(kv[0]))
        d['ch'] = tuple(ch)
        for extra in ('ref_point', 'filenames'):
            if hasattr(n, extra):
                d[extra] = _attr_val(getattr(n, extra))
    else:
        for extra in ('filenames',):
            if hasattr(n, extra):
                d[extra] = _attr_val(getattr(n, extra))
        try:
            d['v'] = util.typed(n.ayns.native_value)
        except Exception:
            d['v'] = ('str', str(n)) if isinstance(n, str) else ('repr', type(n).__name__)
    return tuple(sorted(d.items(), key=lambda kv: kv[0]))


def _attr_val(v):
    if isinstance(v, (list, tuple)):
        return tuple(str(x) for x in v)
    if isinstance(v, str):
        return repr(str(v))
    if isinstance(v, (int, float, bool, type(None))):
        return repr(v)
    return type(v).__name__


def sub_view(view, path):
    """descend a tree_view along typed keys"""
    for comp in path:
        d = dict(view)
        ch = d.get('ch')
        if ch is None:
            return None
        nxt = None
        for k, v in ch:
            if k == util.typed(comp):
                nxt = v
                break
        if nxt is None:
            return None
        view = nxt
    return view
