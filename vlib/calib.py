"""Calibration of the reference models on the repository's own YAML fixtures.

Each fixture (tests/yaml_files/<dir>/*_test.yaml) is converted to abstract
documents with PyYAML's composer (no awesomeyaml involved), run through the
model, and compared with its ###EXPECTED / ###ERROR section.  A disagreement
means the *oracle* is miscalibrated: the check using it exits inconclusive
instead of raising an alarm.
"""
import os
import glob
import pickle

import yaml as pyyaml

from . import env, util
from .emit import M, L, S, SP

_FLAG_TAGS = {'!del': ('del', True), '!merge': ('del', False), '!force': ('prio', 1), '!weak': ('prio', -1),
              '!new': ('new', True), '!notnew': ('new', False), '!unsafe': ('unsafe', True)}
_SPECIAL = {'priority': 'prio', 'delete': 'del', 'allow_new': 'new'}


class Unsupported(Exception):
    pass


def load_fixture(path):
    sec = {'yaml': [], 'error': [], 'expected': [], 'validate': []}
    st = 'yaml'
    with open(path) as f:
        for line in f:
            if line.startswith('###ERROR'):
                st = 'error'
            elif line.startswith('###EXPECTED'):
                st = 'expected'
            elif line.startswith('###VALIDATE'):
                st = 'validate'
            else:
                sec[st].append(line)
    return {k: ''.join(v) for k, v in sec.items()}


def _scalar(loader, node, plain_tag):
    n2 = pyyaml.ScalarNode(plain_tag, node.value, style=node.style)
    return loader.construct_object(n2, deep=True)


def to_abstract(text):
    """YAML text -> list of abstract documents (raises Unsupported for features the converter does not know)"""
    if '{{' in text:
        raise Unsupported('brace metadata')
    loader = pyyaml.SafeLoader('')
    docs = []
    for root in pyyaml.compose_all(text, Loader=pyyaml.SafeLoader):
        if root is None:
            continue
        docs.append(_conv(loader, root))
    return docs


def _flags(tag):
    if tag in _FLAG_TAGS:
        k, v = _FLAG_TAGS[tag]
        return {k: v}
    if tag.startswith('!metadata:'):
        d = pickle.loads(bytes.fromhex(tag[len('!metadata:'):]))
        fl = {}
        for k in list(d):
            if k in _SPECIAL:
                fl[_SPECIAL[k]] = d.pop(k)
            elif k == 'safe':
                if d.pop(k) is False:
                    fl['unsafe'] = True
        for k in ('idx', 'source_file'):
            d.pop(k, None)
        if d:
            fl['md'] = d
        return fl
    return None


def _conv(loader, node):
    tag = node.tag
    custom = tag.startswith('!') and not tag.startswith('!!')
    fl = {}
    if custom:
        if tag in ('!clear', '!required', '!null'):
            if not (isinstance(node, pyyaml.ScalarNode) and node.value == '' and node.style is None):
                raise Unsupported(tag + ' with a value')
            return SP(tag[1:]) if tag != '!null' else S(None)
        if tag == '!prev':
            if not isinstance(node, pyyaml.ScalarNode):
                raise Unsupported('!prev with a non-scalar')
            return SP('prev', path=node.value)
        if tag in ('!append', '!extend'):
            if isinstance(node, pyyaml.SequenceNode):
                return SP(tag[1:], args=L([_conv(loader, c) for c in node.value]))
            if isinstance(node, pyyaml.ScalarNode):
                plain = node.style is None
                return SP(tag[1:], args=L([S(_scalar(loader, node, loader.resolve(pyyaml.ScalarNode, node.value, (plain, not plain))))]))
            raise Unsupported(tag + ' with a mapping')
        fl = _flags(tag)
        if fl is None:
            raise Unsupported('tag ' + tag)
    if isinstance(node, pyyaml.MappingNode):
        items = []
        for k, v in node.value:
            if not isinstance(k, pyyaml.ScalarNode) or (k.tag.startswith('!') and not k.tag.startswith('!!')):
                raise Unsupported('complex key')
            if k.tag == 'tag:yaml.org,2002:merge':
                raise Unsupported('merge key')
            items.append([loader.construct_object(k, deep=True), _conv(loader, v)])
        return M(items, **fl)
    if isinstance(node, pyyaml.SequenceNode):
        return L([_conv(loader, c) for c in node.value], **fl)
    if custom:
        if node.value == '' and node.style is None:
            if fl == {'del': True}:
                return S(None, vdel=True)
            return S(None, **fl)
        plain = node.style is None
        rtag = loader.resolve(pyyaml.ScalarNode, node.value, (plain, not plain))
        return S(_scalar(loader, node, rtag), **fl)
    return S(loader.construct_object(node, deep=True))


def fixtures(dirs):
    root = os.path.join(env.REPO, 'tests', 'yaml_files')
    out = []
    for d in dirs:
        out.extend(sorted(glob.glob(os.path.join(root, d, '*_test.yaml'))))
    return out


def calibrate(dirs, run_model, min_used=5):
    """run_model(docs) -> plain result, or raises model.ModelError(kind).
    returns a summary dict; raises env.Inconclusive on any disagreement"""
    from .model import ModelError
    used, skipped, bad = 0, [], []
    for f in fixtures(dirs):
        name = os.path.relpath(f, os.path.join(env.REPO, 'tests', 'yaml_files'))
        fx = load_fixture(f)
        try:
            docs = to_abstract(fx['yaml'])
            if not docs:
                raise Unsupported('no documents')
        except Unsupported as e:
            skipped.append(f'{name}: {e}')
            continue
        except Exception as e:
            skipped.append(f'{name}: converter failed {e!r}')
            continue
        try:
            got = ('ok', run_model(docs))
        except ModelError as e:
            got = ('err', e.kind)
        except Unsupported as e:
            skipped.append(f'{name}: {e}')
            continue
        except ValueError as e:
            skipped.append(f'{name}: {e}')
            continue
        used += 1
        if fx['error'].strip():
            want = fx['error'].strip().split('\n')[0].strip().split('.')[-1]
            if got[0] != 'err' or got[1] != want:
                bad.append(f'{name}: fixture expects {want}, model says {got}')
        elif fx['expected'].strip() and fx['expected'].strip() != 'skip':
            want = pyyaml.load(fx['expected'], Loader=pyyaml.Loader)
            if got[0] != 'ok' or util.typed(got[1]) != util.typed(want):
                bad.append(f'{name}: fixture expects {want!r}, model says {got!r}')
    if bad:
        raise env.Inconclusive('oracle miscalibrated on repository fixtures: ' + '; '.join(bad[:5]))
    if used < min_used:
        raise env.Inconclusive(f'only {used} fixtures usable for calibration (skipped: {skipped[:5]})')
    return {'fixtures_agreeing_with_model': used, 'fixtures_skipped': skipped}
