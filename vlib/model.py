"""Executable reference semantics over abstract documents (emit.py format).

Written from README, class docstrings and the property statements; never
imports awesomeyaml.  Each property uses only the part of it that its statement
pins down and restricts its generator accordingly (see DESIGN.md section 3).
"""
import copy

W, S, F = -1, 0, 1


class ModelError(Exception):
    """the model says the build must fail; .kind names the library error class"""
    def __init__(self, kind, msg, path=None):
        super().__init__(msg)
        self.kind = kind
        self.path = path


class OutOfDomain(Exception):
    """the statement does not pin the outcome down for this input (see DESIGN.md restrictions)"""


class R:
    """resolved node: flags made effective"""
    __slots__ = ('kind', 'prio', 'xdel', 'dele', 'v', 'ch', 'md', 'stage', 'xnew', 'anew', 'vdel', 'tag', 'idel', 'inew')

    def __init__(self, kind, **kw):
        self.kind = kind
        self.prio = S
        self.xdel = None
        self.dele = False
        self.v = None
        self.ch = None
        self.md = {}
        self.stage = None
        self.xnew = None      # explicit allow_new flag on this node (governs what is below it)
        self.anew = True      # effective: may this node itself be created?
        self.vdel = False
        self.tag = None
        self.idel = None      # delete flag handed down by the parent (None = nothing inherited)
        self.inew = None      # allow-new flag handed down by the parent
        for k, x in kw.items():
            setattr(self, k, x)

    def composed(self):
        return self.kind in ('map', 'seq')

    def falsy(self):
        if self.tag == 'fn':
            return False          # a function node is truthy as long as it names a target
        if self.composed():
            return not self.ch
        if self.kind in ('req', 'clear'):
            return False
        return self.v is None          # "value-less": a scalar that is merely falsy (0, false, '') is a value

    def items(self):
        return list(self.ch.items()) if self.kind == 'map' else list(enumerate(self.ch))

    def get(self, k):
        if self.kind == 'map':
            return self.ch.get(k)
        if self.kind == 'seq':
            if isinstance(k, bool) or not isinstance(k, int):
                return None
            n = len(self.ch)
            if -n <= k < n:
                return self.ch[k]
        return None


def resolve(n, stage=0, inh_prio=None, inh_del=None, inh_new=None):
    """abstract node -> R with effective priority / delete / allow-new"""
    t = n['t']
    # "a priority tag on a container applies to everything below it": the outermost tag wins
    prio = inh_prio if inh_prio is not None else n.get('prio')
    xdel = True if n.get('vdel') else n.get('del')
    if t == 'sp':
        kind = {'required': 'req', 'clear': 'clear', 'prev': 'prev', 'append': 'append', 'extend': 'extend'}.get(n['kind'])
        if kind is None:
            raise ValueError('model does not cover special node ' + n['kind'])
        r = R(kind)
        if kind == 'prev':
            r.v = n['path']
        elif kind in ('append', 'extend'):
            r.ch = [resolve(c, stage, None, True, None) for c in n['args']['items']]
    elif t == 'sc':
        r = R('sc', v=None if n.get('vdel') else n['v'], vdel=bool(n.get('vdel')))
    else:
        r = R(t)
        if n.get('fnode'):
            r.tag = 'fn'
    r.prio = prio if prio is not None else S
    r.xdel = xdel
    if xdel is not None:
        r.dele = xdel
    elif inh_del is not None:
        r.dele = inh_del
    else:
        r.dele = (t == 'seq')
    r.md = dict(n.get('md') or {})
    r.stage = stage
    r.xnew = n.get('new')
    r.anew = True if inh_new is None else inh_new
    r.idel, r.inew = inh_del, inh_new
    if t in ('map', 'seq'):
        # what children inherit: explicit flag, else (type default or inherited)
        cdel = xdel if xdel is not None else (inh_del if inh_del is not None else (True if t == 'seq' else None))
        cnew = r.xnew if r.xnew is not None else inh_new
        if t == 'map':
            r.ch = {k: resolve(c, stage, prio, cdel, cnew) for k, c in n['items']}
        else:
            r.ch = [resolve(c, stage, prio, cdel, cnew) for c in n['items']]
    return r


def plain(r):
    if r.kind == 'map':
        return {k: plain(c) for k, c in r.ch.items()}
    if r.kind == 'seq':
        return [plain(c) for c in r.ch]
    if r.kind == 'req':
        return '<required>'
    return r.v


def walk(r, path=()):
    yield path, r
    if r.composed():
        for k, c in r.items():
            yield from walk(c, path + (k,))


def nearest(root, rel):
    cur = root
    for c in rel:
        nxt = cur.get(c) if cur.composed() else None
        if nxt is None:
            break
        cur = nxt
    return cur


def drop_outranked(O, node, rel):
    """list pre-filter: a deleting element of the newer node that is outranked by the element it would replace (or by the
    list itself, if it would be appended) is dropped together with everything below it.  Only direct children take part:
    whatever is nested deeper competes when the corresponding nodes are merged."""
    keep = []
    for k, c in node.items():
        cur = O.get(k)
        if cur is None:
            cur = O
        if c.dele and c.prio < cur.prio:
            continue
        keep.append((k, c))
    if node.kind == 'map':
        node.ch = dict(keep)
    else:
        node.ch = [c for _, c in keep]


def nearest_exact_depth(root, rel):
    cur, depth = root, 0
    for c in rel:
        if not cur.composed() or (cur.kind == 'seq' and (isinstance(c, bool) or not isinstance(c, int) or c < 0)):
            break
        nxt = cur.get(c)
        if nxt is None:
            break
        cur, depth = nxt, depth + 1
    return cur, depth


def nearest_exact(root, rel):
    """nearest existing node along rel, by exact child names (list children are named 0..n-1)"""
    cur = root
    for c in rel:
        if not cur.composed() or (cur.kind == 'seq' and (isinstance(c, bool) or not isinstance(c, int) or c < 0)):
            break
        nxt = cur.get(c)
        if nxt is None:
            break
        cur = nxt
    return cur


def filt(node, cond, rel=(), removed=None):
    """filter_nodes: drop children for which cond is false and that keep no descendant"""
    keep_items = []
    for k, c in node.items():
        keep = bool(cond(rel + (k,), c))
        if c.composed():
            filt(c, cond, rel + (k,), removed)
            keep = keep or bool(c.ch)
        if keep:
            keep_items.append((k, c))
        elif removed is not None:
            removed.add(rel + (k,))
    if node.kind == 'map':
        node.ch = dict(keep_items)
    else:
        node.ch = [c for _, c in keep_items]
    return node


def require_all_new(r, path, exceptions=(), include_self=True):
    for p, n in walk(r, path):
        if p == path and not include_self:
            continue
        if not n.anew and p not in exceptions:
            raise ModelError('MergeError', f'node {p!r} requires that the destination exists', p)


def merge(O, N, path=(), strict_domain=False, removed_above=frozenset()):
    """merge newer N onto older O (both R); returns the resulting node.
    removed_above: absolute paths which deleting nodes further up have removed in this very merge (they did exist: !notnew accepts them)"""
    if O is N:
        return O                 # a node moved over by a premerge operator meets itself
    if not (O.composed() and N.composed()):
        if strict_domain:
            win, lose = (O, N) if O.prio > N.prio else (N, O)
            if lose.composed() and any(x.prio > win.prio for _, x in walk(lose)):
                raise OutOfDomain('a scalar/container conflict would discard higher-priority entries')
        if O.prio > N.prio:
            O.md = {**N.md, **O.md}
            return O
        N.md = {**O.md, **N.md}
        return N
    if O.kind == 'seq' and N.kind == 'map' and N.dele:
        # a deleting mapping replaces the list like any other deleting node (its keys are not positions)
        int_keys = any(isinstance(k, int) and not isinstance(k, bool) for k in N.ch)
        if (int_keys and any(x.prio != N.prio for _, x in walk(N))) or any(x.prio > N.prio for _, x in walk(O)):
            raise OutOfDomain('a deleting mapping with integer keys onto a list, with priorities of their own on either side: whether the mapping keys are positions then is not specified')
        # (with names as keys there is nothing to match against positions: the mapping replaces the list, whatever priorities its own entries carry)
        removed = set()
        filt(O, lambda rel, e: e.prio > nearest(N, rel).prio, removed=removed)
        if O.ch or N.prio < O.prio:
            raise OutOfDomain('a deleting mapping onto a list with protected elements: what the mapping keys mean then is not specified')
        require_all_new(N, path, exceptions={path + r for r in removed} | {path} | set(removed_above))
        N.md = {**O.md, **N.md}
        return N
    if O.kind == 'seq' and N.kind == 'map':
        n = len(O.ch)
        if strict_domain and len({(k + n if isinstance(k, int) and k < 0 else k) for k in N.ch}) != len(N.ch):
            raise OutOfDomain('two keys of one mapping address the same list element')
        for k in N.ch:
            if isinstance(k, bool) or not isinstance(k, int) or not (-n <= k < n):
                raise ModelError('MergeError', f'mapping key {k!r} does not address an existing index of the list at {path!r}', path)
    if O.kind == 'seq':
        # newer deleting nodes that are outranked by what the list already holds are dropped first
        drop_outranked(O, N, ())
    removed = set()
    if N.dele:
        filt(O, lambda rel, e: e.prio > nearest(N, rel).prio, removed=removed)
        if not O.ch and N.prio >= O.prio:
            require_all_new(N, path, exceptions={path + r for r in removed} | {path} | set(removed_above))
            N.md = {**O.md, **N.md}
            return N
    gone = []        # entries removed by this merge: taken out after all keys of N have been matched (positions of a list stay put meanwhile)
    for k, v in N.items():
        child = O.get(k)
        if child is None:
            if strict_domain and v.vdel:
                raise OutOfDomain('value-less !del aimed at a key that does not exist')
            # (what the deleting N has just removed from O did exist: writing it again creates no path)
            require_all_new(v, path + (k,), exceptions={path + r for r in removed} | set(removed_above))
            if O.kind == 'map':
                O.ch[k] = v
            else:
                O.ch.append(v)
            continue
        kk = k if O.kind == 'map' else (k if k >= 0 else len(O.ch) + k)
        was_composed = child.composed()
        r = merge(child, v, path + (k,), strict_domain, frozenset({path + r for r in removed} | set(removed_above)))
        if was_composed:
            if r.falsy() and not (r.prio > v.prio) and v.xdel and v is not child:      # (a node emptied by !clear meets itself: it stays, empty)
                gone.append(kk)
            else:
                _set(O, kk, r)
        elif r is not child:
            require_all_new(r, path + (k,), include_self=False)
            if r.falsy() and r.xdel:
                gone.append(kk)
            else:
                _set(O, kk, r)
    for kk in (sorted(set(gone), reverse=True) if O.kind == 'seq' else gone):
        _remove(O, kk)
    if N.prio >= O.prio:
        O.prio, O.xdel = N.prio, N.xdel
        O.md = {**O.md, **N.md}
    else:
        O.md = {**N.md, **O.md}
    return O


def _remove(O, k):
    if O.kind == 'map':
        del O.ch[k]
    else:
        del O.ch[k]


def _set(O, k, r):
    O.ch[k] = r


def lookup(root, path):
    """exact look-up by child names (list children are named 0..n-1: no negative indices)"""
    cur = root
    for c in path:
        if not cur.composed() or (cur.kind == 'seq' and (isinstance(c, bool) or not isinstance(c, int) or c < 0)):
            return None
        cur = cur.get(c)
        if cur is None:
            return None
    return cur


import re as _re
_COMP = _re.compile(r"\[(-?\d+)\]|([^.\[\]]+)")


def parse_path(text):
    out = []
    for m in _COMP.finditer(text):
        out.append(int(m.group(1)) if m.group(1) is not None else m.group(2))
    return tuple(out)


def remove_at(root, path):
    """remove_node: exact look-up, returns the removed node or None"""
    if not path:
        raise ModelError('PremergeError', 'cannot remove self')
    parent = lookup(root, path[:-1])
    if parent is None or not parent.composed():
        return None
    node = lookup(parent, path[-1:])
    if node is None:
        return None
    if parent.kind == 'map':
        del parent.ch[path[-1]]
    else:
        del parent.ch[path[-1]]
    return node


def child_flags(r):
    """(delete, allow_new) flags a container hands down to its children"""
    cdel = r.xdel if r.xdel is not None else (r.idel if r.idel is not None else (True if r.kind == 'seq' else None))
    cnew = r.xnew if r.xnew is not None else r.inew
    return cdel, cnew


def reinherit(r, idel, inew):
    """a node that is moved to another place keeps its explicit flags and inherits the rest from its new parent"""
    r.idel, r.inew = idel, inew
    if r.xdel is not None:
        r.dele = r.xdel
    elif idel is not None:
        r.dele = idel
    else:
        r.dele = r.kind == 'seq'
    r.anew = True if inew is None else inew
    if r.composed():
        cdel, cnew = child_flags(r)
        for _, c in r.items():
            reinherit(c, cdel, cnew)


def premerge(acc, n, path=()):
    """premerge operators act, in document order, before the stage is merged: they take the older node at a path and
    *move* it into the newer tree (!clear empties it, !prev moves it elsewhere, !append/!extend grow it)"""
    if not n.composed():
        return
    cdel, cnew = child_flags(n)
    for k, c in n.items():
        here = path + (k,)
        if c.kind == 'clear':
            tgt = lookup(acc, here)
            if tgt is None:
                raise ModelError('PremergeError', f'!clear at {here!r}: nothing there', here)
            if not tgt.composed():
                raise ModelError('PremergeError', f'!clear at {here!r}: not a container', here)
            tgt.ch = {} if tgt.kind == 'map' else []
            reinherit(tgt, cdel, cnew)
            n.ch[k] = tgt
        elif c.kind == 'prev':
            tgt = remove_at(acc, parse_path(c.v))
            if tgt is None:
                raise ModelError('PremergeError', f'!prev {c.v!r}: no such node', here)
            reinherit(tgt, cdel, cnew)
            n.ch[k] = tgt
        elif c.kind == 'append':
            tgt = remove_at(acc, here)
            if tgt is None:
                raise ModelError('PremergeError', f'!append at {here!r}: nothing to append to', here)
            if tgt.kind != 'seq':
                raise ModelError('PremergeError', f'!append at {here!r}: not a list', here)
            tgt.ch.extend(c.ch)
            reinherit(tgt, cdel, cnew)
            n.ch[k] = tgt
        elif c.kind == 'extend':
            tgt = lookup(acc, here)
            if tgt is not None and tgt.kind == 'seq':
                remove_at(acc, here)
                tgt.ch.extend(c.ch)
                reinherit(tgt, cdel, cnew)
                n.ch[k] = tgt
            else:
                fresh = R('seq', ch=list(c.ch), prio=c.prio, stage=c.stage)
                reinherit(fresh, cdel, cnew)
                n.ch[k] = fresh
        else:
            premerge(acc, c, here)


def premerge_first(n):
    """premerge with nothing to merge into: !append/!extend become plain lists, !clear and !prev fail"""
    if not n.composed():
        return
    for k, c in n.items():
        if c.kind in ('clear', 'prev'):
            raise ModelError('PremergeError', f'!{c.kind} in a first document')
        if c.kind in ('append', 'extend'):
            n.ch[k] = R('seq', ch=list(c.ch), dele=True, prio=c.prio, stage=c.stage, anew=c.anew)
        else:
            premerge_first(c)


def build(docs, strict_domain=False):
    """model of Builder.build for documents without premerge operators other than !clear"""
    acc = resolve(docs[0], 0)
    premerge_first(acc)
    require_all_new(acc, ())
    for i, d in enumerate(docs[1:], 1):
        n = resolve(d, i)
        premerge(acc, n)
        acc = merge(acc, n, (), strict_domain)
    return acc


def surviving_required(r):
    return [p for p, n in walk(r) if n.kind == 'req']


# ------------------------------------------------------------------ C03 oracle (independent of merge())
def writers(docs):
    """leaf path -> list of (priority, stage, value, md) over all stages; a seq is an atomic leaf"""
    out = {}

    def rec(n, path, stage, inh):
        prio = inh if inh is not None else n.get('prio')
        if n['t'] == 'map':
            out.setdefault(path, []).append(('map', prio if prio is not None else S, stage, None, dict(n.get('md') or {})))
            for k, c in n['items']:
                rec(c, path + (k,), stage, prio)
        else:
            from .emit import plain as eplain
            out.setdefault(path, []).append(('leaf', prio if prio is not None else S, stage, eplain(n), dict(n.get('md') or {})))

    for i, d in enumerate(docs):
        rec(d, (), i, None)
    return out


def winner(ws):
    return max(ws, key=lambda w: (w[1], w[2]))


def config(docs, strict_domain=False):
    """model of Config.build: merged tree, then the !required check, then plain data"""
    acc = build(docs, strict_domain)
    req = surviving_required(acc)
    if req:
        raise ModelError('ValueError', 'required nodes not set: ' + repr(req), req)
    return plain(acc)
