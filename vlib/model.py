"""Executable reference semantics over abstract documents (emit.py format).

Written from README, class docstrings and the property statements; never
imports awesomeyaml.  Each property uses only the part of it that its statement
pins down and restricts its generator accordingly (see DESIGN.md section 3).
"""
import copy

W, S, F = -1, 0, 1


class ModelError(Exception):
    """the model says the build must fail; .kind names the library error class"""
    def __init__(self, kind, msg, path=None):
        super().__init__(msg)
        self.kind = kind
        self.path = path


class R:
    """resolved node: flags made effective"""
    __slots__ = ('kind', 'prio', 'xdel', 'dele', 'v', 'ch', 'md', 'stage', 'xnew', 'anew', 'vdel', 'tag')

    def __init__(self, kind, **kw):
        self.kind = kind
        self.prio = S
        self.xdel = None
        self.dele = False
        self.v = None
        self.ch = None
        self.md = {}
        self.stage = None
        self.xnew = None      # explicit allow_new flag on this node (governs what is below it)
        self.anew = True      # effective: may this node itself be created?
        self.vdel = False
        self.tag = None
        for k, x in kw.items():
            setattr(self, k, x)

    def composed(self):
        return self.kind in ('map', 'seq')

    def falsy(self):
        if self.composed():
            return not self.ch
        if self.kind in ('req', 'clear'):
            return False
        return not self.v

    def items(self):
        return list(self.ch.items()) if self.kind == 'map' else list(enumerate(self.ch))

    def get(self, k):
        if self.kind == 'map':
            return self.ch.get(k)
        if self.kind == 'seq':
            if isinstance(k, bool) or not isinstance(k, int):
                return None
            n = len(self.ch)
            if -n <= k < n:
                return self.ch[k]
        return None


def resolve(n, stage=0, inh_prio=None, inh_del=None, inh_new=None):
    """abstract node -> R with effective priority / delete / allow-new"""
    t = n['t']
    prio = n.get('prio') if n.get('prio') is not None else inh_prio
    xdel = True if n.get('vdel') else n.get('del')
    if t == 'sp':
        kind = {'required': 'req', 'clear': 'clear'}.get(n['kind'])
        if kind is None:
            raise ValueError('model does not cover special node ' + n['kind'])
        r = R(kind)
    elif t == 'sc':
        r = R('sc', v=None if n.get('vdel') else n['v'], vdel=bool(n.get('vdel')))
    else:
        r = R(t)
    r.prio = prio if prio is not None else S
    r.xdel = xdel
    if xdel is not None:
        r.dele = xdel
    elif inh_del is not None:
        r.dele = inh_del
    else:
        r.dele = (t == 'seq')
    r.md = dict(n.get('md') or {})
    r.stage = stage
    r.xnew = n.get('new')
    r.anew = True if inh_new is None else inh_new
    if t in ('map', 'seq'):
        # what children inherit: explicit flag, else (type default or inherited)
        cdel = xdel if xdel is not None else (True if t == 'seq' else inh_del)
        cnew = r.xnew if r.xnew is not None else inh_new
        if t == 'map':
            r.ch = {k: resolve(c, stage, prio, cdel, cnew) for k, c in n['items']}
        else:
            r.ch = [resolve(c, stage, prio, cdel, cnew) for c in n['items']]
    return r


def plain(r):
    if r.kind == 'map':
        return {k: plain(c) for k, c in r.ch.items()}
    if r.kind == 'seq':
        return [plain(c) for c in r.ch]
    if r.kind == 'req':
        return '<required>'
    return r.v


def walk(r, path=()):
    yield path, r
    if r.composed():
        for k, c in r.items():
            yield from walk(c, path + (k,))


def nearest(root, rel):
    cur = root
    for c in rel:
        nxt = cur.get(c) if cur.composed() else None
        if nxt is None:
            break
        cur = nxt
    return cur


def filt(node, cond, rel=(), removed=None):
    """filter_nodes: drop children for which cond is false and that keep no descendant"""
    keep_items = []
    for k, c in node.items():
        keep = bool(cond(rel + (k,), c))
        if c.composed():
            filt(c, cond, rel + (k,), removed)
            keep = keep or bool(c.ch)
        if keep:
            keep_items.append((k, c))
        elif removed is not None:
            removed.add(rel + (k,))
    if node.kind == 'map':
        node.ch = dict(keep_items)
    else:
        node.ch = [c for _, c in keep_items]
    return node


def require_all_new(r, path, exceptions=(), include_self=True):
    for p, n in walk(r, path):
        if p == path and not include_self:
            continue
        if not n.anew and p not in exceptions:
            raise ModelError('MergeError', f'node {p!r} requires that the destination exists', p)


def merge(O, N, path=()):
    """merge newer N onto older O (both R); returns the resulting node"""
    if N.kind == 'clear':
        # premerge: the older node must exist and be a container; it is emptied and keeps everything else
        if not O.composed():
            raise ModelError('PremergeError', f'!clear at {path!r} has no container to empty', path)
        O.ch = {} if O.kind == 'map' else []
        return O
    if not (O.composed() and N.composed()):
        if O.prio > N.prio:
            O.md = {**N.md, **O.md}
            return O
        N.md = {**O.md, **N.md}
        return N
    if O.kind == 'seq' and N.kind == 'map':
        n = len(O.ch)
        for k in N.ch:
            if isinstance(k, bool) or not isinstance(k, int) or not (-n <= k < n):
                raise ModelError('MergeError', f'mapping key {k!r} does not address an existing index of the list at {path!r}', path)
    if O.kind == 'seq':
        # newer deleting nodes that are outranked by what the list already holds are dropped first
        filt(N, lambda rel, d: True if not d.dele else d.prio >= nearest(O, rel).prio)
    if N.dele:
        removed = set()
        filt(O, lambda rel, e: e.prio > nearest(N, rel).prio, removed=removed)
        if not O.ch and N.prio >= O.prio:
            require_all_new(N, path, exceptions={path + r for r in removed} | {path})
            N.md = {**O.md, **N.md}
            return N
    for k, v in N.items():
        child = O.get(k)
        if child is None:
            require_all_new(v, path + (k,))
            if O.kind == 'map':
                O.ch[k] = v
            else:
                O.ch.append(v)
            continue
        kk = k if O.kind == 'map' else (k if k >= 0 else len(O.ch) + k)
        was_composed = child.composed()
        r = merge(child, v, path + (k,))
        if was_composed:
            if r.falsy() and not (r.prio > v.prio) and v.xdel:
                _remove(O, kk)
            else:
                _set(O, kk, r)
        elif r is not child:
            require_all_new(r, path + (k,), include_self=False)
            if r.falsy() and r.xdel:
                _remove(O, kk)
            else:
                _set(O, kk, r)
    if N.prio >= O.prio:
        O.prio, O.xdel = N.prio, N.xdel
        O.md = {**O.md, **N.md}
    else:
        O.md = {**N.md, **O.md}
    return O


def _remove(O, k):
    if O.kind == 'map':
        del O.ch[k]
    else:
        del O.ch[k]


def _set(O, k, r):
    O.ch[k] = r


def build(docs):
    """model of Builder.build for documents without premerge operators other than !clear"""
    acc = resolve(docs[0], 0)
    require_all_new(acc, ())
    for i, d in enumerate(docs[1:], 1):
        acc = merge(acc, resolve(d, i), ())
    return acc


def surviving_required(r):
    return [p for p, n in walk(r) if n.kind == 'req']


# ------------------------------------------------------------------ C03 oracle (independent of merge())
def writers(docs):
    """leaf path -> list of (priority, stage, value, md) over all stages; a seq is an atomic leaf"""
    out = {}

    def rec(n, path, stage, inh):
        prio = n.get('prio') if n.get('prio') is not None else inh
        if n['t'] == 'map':
            out.setdefault(path, []).append(('map', prio if prio is not None else S, stage, None, dict(n.get('md') or {})))
            for k, c in n['items']:
                rec(c, path + (k,), stage, prio)
        else:
            from .emit import plain as eplain
            out.setdefault(path, []).append(('leaf', prio if prio is not None else S, stage, eplain(n), dict(n.get('md') or {})))

    for i, d in enumerate(docs):
        rec(d, (), i, None)
    return out


def winner(ws):
    return max(ws, key=lambda w: (w[1], w[2]))
