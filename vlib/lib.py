"""Client-boundary helpers: every call into the library goes through here so that
outcomes are recorded uniformly as ('ok', value) or ('err', exception)."""
import gc

from . import util


def ay():
    import awesomeyaml
    return awesomeyaml


def builder(texts, safe=None, filenames=None):
    from awesomeyaml.builder import Builder
    b = Builder()
    for i, t in enumerate(texts):
        kw = {}
        if safe is not None:
            kw['safe'] = safe[i] if isinstance(safe, (list, tuple)) else safe
        if filenames is not None:
            kw['filename'] = filenames[i] if isinstance(filenames, (list, tuple)) else filenames
        b.add_source(t, raw_yaml=True, **kw)
    return b


def merged(texts, safe=None, filenames=None):
    """merged (un-evaluated) tree of the given YAML texts"""
    return builder(texts, safe, filenames).build()


def build(texts, safe=None, filenames=None, eval_ctx=None):
    from awesomeyaml.config import Config
    return Config(merged(texts, safe, filenames), eval_ctx=eval_ctx)


def build_via(texts, route='config', safe=None, filenames=None, eval_ctx=None):
    """two public evaluation routes: Config(tree) (deep-copies the tree first) and EvalContext.evaluate(tree) on the merged tree itself"""
    if route == 'config':
        return build(texts, safe, filenames, eval_ctx)
    from awesomeyaml.eval_context import EvalContext
    from awesomeyaml.config import Config
    tree = merged(texts, safe, filenames)
    if not tree:
        return {}
    Config.check_missing(tree)
    return (eval_ctx or EvalContext()).evaluate(tree)


def outcome(fn, *a, **kw):
    try:
        return ('ok', fn(*a, **kw))
    except RecursionError as e:
        return ('err', e)
    except Exception as e:
        return ('err', e)


def err_kind(e):
    """stage class of a library error, or the plain class name"""
    import awesomeyaml.errors as E
    for x in util.exc_chain(e):
        if isinstance(x, E.Error):
            return type(x).__name__
    return type(e).__name__


def describe(o):
    st, v = o
    if st == 'ok':
        return 'ok ' + util.short(util.loose(v) if not hasattr(v, 'ayns') or isinstance(v, dict) else v, 500)
    return f'raises {err_kind(v)}: ' + util.short(str(v).replace('\n', ' | '), 300)
