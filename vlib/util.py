"""Small helpers: typed canonical views of plain data, hashing, json."""
import json
import math
import hashlib
import functools
import pathlib


def jdump(obj):
    try:
        return json.dumps(obj, sort_keys=True, default=_default)
    except TypeError:
        return json.dumps(obj, default=_default)


def _default(o):
    if isinstance(o, (set, frozenset)):
        return sorted(map(str, o))
    if isinstance(o, tuple):
        return list(o)
    if isinstance(o, bytes):
        return {'__bytes__': o.hex()}
    return repr(o)


def sig(obj):
    return hashlib.md5(jdump(obj).encode()).hexdigest()[:16]


class Opaque:
    """marker wrapper used by typed() for objects a property wants compared by a tag"""
    def __init__(self, tag):
        self.tag = tag


def typed(v, ordered_maps=False, other=None):
    """Canonical, hashable, type-exact view of plain Python data.

    Mappings are compared without regard to key order unless ordered_maps.
    `other(v)` may map non-plain objects to a hashable tag; without it they are
    represented by type name + repr.
    """
    if isinstance(v, bool):
        return ('bool', v)
    if v is None:
        return ('none',)
    if type(v) is int:
        return ('int', v)
    if type(v) is float:
        if math.isnan(v):
            return ('float', 'nan')
        return ('float', repr(v))
    if type(v) is str:
        return ('str', v)
    if type(v) is bytes:
        return ('bytes', v)
    if isinstance(v, dict):
        items = [(typed(k, ordered_maps, other), typed(x, ordered_maps, other)) for k, x in v.items()]
        if not ordered_maps:
            items.sort(key=repr)
        return ('map', tuple(items))
    if isinstance(v, list):
        return ('list', tuple(typed(x, ordered_maps, other) for x in v))
    if isinstance(v, tuple):
        return ('tuple', tuple(typed(x, ordered_maps, other) for x in v))
    if isinstance(v, (set, frozenset)):
        return ('set', tuple(sorted((typed(x, ordered_maps, other) for x in v), key=repr)))
    if isinstance(v, pathlib.PurePath):
        return ('path', str(v))
    if isinstance(v, functools.partial):
        return ('partial', typed(getattr(v.func, '__name__', repr(v.func)), ordered_maps, other),
                typed(list(v.args), ordered_maps, other), typed(dict(v.keywords), ordered_maps, other))
    if other is not None:
        t = other(v)
        if t is not None:
            return ('obj', t)
    return ('other', type(v).__module__ + '.' + type(v).__qualname__, repr(v))


def loose(v):
    """value-only view (types relaxed to what == would say); used for messages"""
    try:
        return json.loads(jdump(v))
    except Exception:
        return repr(v)


def short(v, n=400):
    s = v if isinstance(v, str) else repr(v)
    return s if len(s) <= n else s[:n] + '...'


def exc_chain(e):
    """classes along __cause__/__context__ (cause preferred), outermost first"""
    out = []
    seen = set()
    while e is not None and id(e) not in seen:
        seen.add(id(e))
        out.append(e)
        e = e.__cause__ if e.__cause__ is not None else e.__context__
    return out


def exc_names(e):
    return [type(x).__name__ for x in exc_chain(e)]


def chain_has(e, cls):
    return any(isinstance(x, cls) for x in exc_chain(e))
