"""Environment set-up shared by every check.

The library under test is pure Python, so "rebuilding from /repo's working
tree" is the import itself.  `setup()` puts the repository first on sys.path
and refuses to continue (Inconclusive) if `awesomeyaml` was not imported from
there.  VERIF_REPO may point at a scratch copy (used only while validating the
monitors against seeded changes; registered commands never set it).
"""
import os
import sys
import subprocess

VERIF = os.path.dirname(os.path.dirname(os.path.abspath(__file__)))
REPO = os.environ.get('VERIF_REPO', '/repo')
DEPS = os.path.join(VERIF, '.deps')
WHEELS = '/opt/veriftools/wheels'
GUARD = 'AWESOMEYAML_VERIF'


class Inconclusive(Exception):
    """Raised when a check cannot decide (environment wrong, oracle miscalibrated,
    monitor never reached).  Never folded into held / violated."""


def ensure_deps():
    """Install icontract beside the repository's interpreter (offline wheelhouse)
    if a fresh restore left /verif/.deps absent.  Safe to call from many processes at
    once: one installs (into a scratch folder, moved into place name by name, icontract
    itself last), the others wait for it."""
    marker = os.path.join(DEPS, 'icontract', '__init__.py')
    if os.path.isfile(marker):
        return True
    import fcntl
    import shutil
    import tempfile
    try:
        lock = open(DEPS + '.lock', 'w')
    except OSError:
        return False
    try:
        fcntl.flock(lock, fcntl.LOCK_EX)
        if os.path.isfile(marker):
            return True
        tmp = tempfile.mkdtemp(prefix='.deps_tmp_', dir=VERIF)
        try:
            subprocess.run([sys.executable, '-m', 'pip', 'install', '--quiet', '--no-index',
                            '--find-links', WHEELS, '--target', tmp, 'icontract'],
                           check=True, stdout=subprocess.DEVNULL, stderr=subprocess.DEVNULL, timeout=900)
            os.makedirs(DEPS, exist_ok=True)
            names = sorted(os.listdir(tmp), key=lambda n: n == 'icontract')
            for name in names:
                dst = os.path.join(DEPS, name)
                if os.path.exists(dst):
                    shutil.rmtree(dst, ignore_errors=True) if os.path.isdir(dst) else os.remove(dst)
                os.rename(os.path.join(tmp, name), dst)
        finally:
            shutil.rmtree(tmp, ignore_errors=True)
    except Exception:
        return False
    finally:
        lock.close()
    return os.path.isfile(marker)


def setup(need_deps=False):
    os.environ[GUARD] = '1'
    if REPO in sys.path:
        sys.path.remove(REPO)
    sys.path.insert(0, REPO)
    if VERIF not in sys.path:
        sys.path.insert(1, VERIF)
    if need_deps:
        if not ensure_deps():
            raise Inconclusive('icontract could not be installed from the offline wheelhouse')
        if DEPS not in sys.path:
            sys.path.append(DEPS)
    import awesomeyaml
    where = os.path.realpath(os.path.dirname(awesomeyaml.__file__))
    if not where.startswith(os.path.realpath(REPO) + os.sep):
        raise Inconclusive(f'awesomeyaml imported from {where}, not from {REPO}')
    # pre-import every node module: constructors import lazily, and monitors
    # want stable code objects
    import importlib
    for m in ('append', 'bind', 'call', 'clear', 'composed', 'dict', 'eval', 'extend', 'fstr', 'function',
              'import', 'include', 'list', 'node', 'node_path', 'path', 'prev', 'recurse', 'required',
              'scalar', 'stream', 'tuple', 'xref'):
        importlib.import_module('awesomeyaml.nodes.' + m)
    import awesomeyaml.builder, awesomeyaml.config, awesomeyaml.eval_context, awesomeyaml.yaml  # noqa
    return awesomeyaml


def child_env():
    env = dict(os.environ)
    env['PYTHONPATH'] = os.pathsep.join([REPO, VERIF])
    env['PYTHONDONTWRITEBYTECODE'] = '1'
    env.setdefault('PYTHONHASHSEED', '0')
    env[GUARD] = '1'
    return env
