"""Monitors attached from the harness (no edits to the repository)."""
import sys

from . import util


# ------------------------------------------------------------------ M-treesan
def treesan(root, check_paths=True):
    """structural invariants of a node tree at a quiescent point.
    returns a list of problem strings (empty = consistent)"""
    from awesomeyaml.nodes.node import ConfigNode
    from awesomeyaml.nodes.composed import ComposedNode
    from awesomeyaml.nodes.node_path import NodePath
    problems = []
    seen = set()

    def rec(n, path):
        if id(n) in seen:
            return
        seen.add(id(n))
        if not isinstance(n, ComposedNode):
            return
        ch = list(n.ayns.named_children())
        if isinstance(n, dict):
            store = list(dict.items(n))
            if [k for k, _ in store] != [k for k, _ in ch]:
                problems.append(f'{path!r}: dict view has keys {[_k(k) for k, _ in store]} but the child table has {[_k(k) for k, _ in ch]}')
            else:
                for (k, a), (_, b) in zip(store, ch):
                    if a is not b:
                        problems.append(f'{path!r}[{_k(k)!r}]: dict view holds {a!r}, child table holds a different object {b!r}')
        elif isinstance(n, list):
            store = list(list.__iter__(n))
            if [k for k, _ in ch] != list(range(len(ch))):
                problems.append(f'{path!r}: list children are numbered {[k for k, _ in ch]}, not 0..{len(ch) - 1}')
            if len(store) != len(ch):
                problems.append(f'{path!r}: list view has {len(store)} entries, child table has {len(ch)}')
            else:
                bykey = dict(ch)
                for i, a in enumerate(store):
                    if bykey.get(i) is not a:
                        problems.append(f'{path!r}[{i}]: list view holds {a!r} but child {i} is {bykey.get(i)!r}')
                        break
                # iteration order of the child table is what evaluation uses
                if [id(c) for _, c in ch] != [id(a) for a in store] and not any('numbered' in p for p in problems):
                    problems.append(f'{path!r}: child table iterates in another order than the list view')
        for k, c in ch:
            if not isinstance(c, ConfigNode):
                problems.append(f'{path!r}[{_k(k)!r}]: entry is a raw {type(c).__name__}, not a node')
        if isinstance(n, dict):
            for k, c in dict.items(n):
                if not isinstance(c, ConfigNode):
                    problems.append(f'{path!r}[{_k(k)!r}]: dict view entry is a raw {type(c).__name__}, not a node')
        for k, c in ch:
            if isinstance(c, ConfigNode):
                rec(c, path + [_k(k)])

    rec(root, [])
    if check_paths and isinstance(root, ComposedNode) and not problems:
        try:
            for p, node in root.ayns.nodes_with_paths():
                comps = [_k(c) for c in p]
                try:
                    found = root.ayns.get_node(comps)
                except Exception as e:
                    problems.append(f'walk reports a node at {comps!r} but looking the path up raises {type(e).__name__}: {e}')
                    continue
                if found is not node:
                    problems.append(f'walk reports {node!r} at {comps!r} but looking the path up gives {found!r}')
                if all((isinstance(c, str) and _is_simple(c)) or (isinstance(c, int) and not isinstance(c, bool) and c >= 0) for c in comps):
                    text = NodePath.join_path(comps)
                    back = list(NodePath.get_list_path(text)) if text else []
                    if back != comps:
                        problems.append(f'path {comps!r} -> {text!r} -> {back!r} does not round-trip')
        except Exception as e:
            problems.append(f'tree walk raised {type(e).__name__}: {e}')
    return problems


def _k(k):
    try:
        return k.ayns.native_value
    except AttributeError:
        return k


import re
_SIMPLE = re.compile(r'^[A-Za-z_][A-Za-z0-9_]*$')


def _is_simple(s):
    return bool(_SIMPLE.match(s))


# ------------------------------------------------------------------ M-budget / M-evalcount (sys.monitoring, CPython >= 3.12)
class StepBudgetExceeded(BaseException):
    pass


class EvalMonitor:
    """counts PY_START events of selected code objects and raises StepBudgetExceeded
    (a BaseException, so library code cannot swallow it) past a logical-step budget"""
    TOOL = 3

    def __init__(self, funcs, budget=None):
        self.codes = {f.__code__: name for name, f in funcs.items()}
        self.counts = {name: 0 for name in funcs}
        self.budget = budget
        self.total = 0
        self.on = False
        self.per_object = None      # optional callback(code_name, frame)

    def start(self):
        mon = sys.monitoring
        try:
            mon.use_tool_id(self.TOOL, 'verif-evalmon')
        except ValueError:
            pass
        mon.register_callback(self.TOOL, mon.events.PY_START, self._cb)
        for code in self.codes:
            mon.set_local_events(self.TOOL, code, mon.events.PY_START)
        self.on = True

    def stop(self):
        mon = sys.monitoring
        for code in self.codes:
            mon.set_local_events(self.TOOL, code, 0)
        mon.register_callback(self.TOOL, mon.events.PY_START, None)
        try:
            mon.free_tool_id(self.TOOL)
        except ValueError:
            pass
        self.on = False

    def reset(self, budget=None):
        for k in self.counts:
            self.counts[k] = 0
        self.total = 0
        if budget is not None:
            self.budget = budget

    def _cb(self, code, offset):
        name = self.codes.get(code)
        if name is None:
            return
        self.counts[name] += 1
        self.total += 1
        if self.per_object is not None:
            self.per_object(name, sys._getframe(1))
        if self.budget is not None and self.total > self.budget:
            raise StepBudgetExceeded(f'{self.total} logical steps > budget {self.budget}')


def ayns_func(cls, name):
    """the plain function behind cls.ayns.<name> (namespaced methods live in cls.ayns._names)"""
    for c in cls.__mro__:
        ns = c.__dict__.get('ayns')
        if ns is not None and name in getattr(ns, '_names', {}):
            f = ns._names[name]
            while not hasattr(f, '__code__'):
                f = getattr(f, 'fget', None) or getattr(f, '__func__', None) or getattr(f, '__wrapped__')
            return f
    raise AttributeError(name)
