"""One shard of one check, run inside a child process.

usage: python -m vlib.worker <prop> <tier> <seed> <shard> <nshards> <ncases> <budget_s> <outdir>

The worker journals the case it is about to run (cur_<shard>.json) so that a
crash of the interpreter pins the culprit, streams violations as they happen
and writes one summary file at the end.
"""
import os
import sys
import json
import time
import random
import signal
import importlib
import traceback
import collections


class CaseTimeout(BaseException):
    pass


def _alarm(signum, frame):
    raise CaseTimeout()


def load_prop(pid):
    return importlib.import_module('vlib.props.' + pid.lower())


def case_rng(seed, pid, j):
    return random.Random(f'{seed}:{pid}:{j}')


def main(argv):
    pid, tier, seed, shard, nshards, ncases, budget, outdir = argv
    seed, shard, nshards, ncases, budget = int(seed), int(shard), int(nshards), int(ncases), float(budget)
    from vlib import env, util
    out = {'shard': shard, 'done': 0, 'evaluations': 0, 'hashes': [], 'features': {}, 'samples': [],
           'violations': [], 'inconclusive': [], 'counters': {}, 'skipped': 0, 'fatal': None, 'init': None}
    sumfile = os.path.join(outdir, f'sum_{shard}.json')
    curfile = os.path.join(outdir, f'cur_{shard}.json')
    viofile = os.path.join(outdir, f'vio_{shard}.jsonl')

    def flush():
        tmp = sumfile + '.tmp'
        with open(tmp, 'w') as f:
            json.dump(out, f, default=util._default)
        os.replace(tmp, sumfile)

    try:
        prop = load_prop(pid)
        env.setup(need_deps=getattr(prop, 'NEED_DEPS', False))
        init = getattr(prop, 'init', None)
        if init is not None:
            out['init'] = init(tier)
    except env.Inconclusive as e:
        out['fatal'] = {'kind': 'inconclusive', 'why': str(e)}
        flush()
        return 2
    except BaseException as e:
        out['fatal'] = {'kind': 'error', 'why': ''.join(traceback.format_exception(type(e), e, e.__traceback__))[-3000:]}
        flush()
        return 3

    hashes = set()
    feats = collections.Counter()
    journal = getattr(prop, 'JOURNAL', False)
    case_timeout = getattr(prop, 'CASE_TIMEOUT', 30)
    signal.signal(signal.SIGALRM, _alarm)
    t0 = time.monotonic()
    vf = open(viofile, 'w')
    last_flush = t0
    startj = int(os.environ.get('VERIF_STARTJ', shard))
    for j in range(startj, ncases, nshards):
        now = time.monotonic()
        if now - t0 > budget:
            break
        rng = case_rng(seed, pid, j)
        try:
            case = prop.gen_case(rng, tier)
        except BaseException as e:
            out['fatal'] = {'kind': 'error', 'why': 'generator failed: ' + ''.join(traceback.format_exception(type(e), e, e.__traceback__))[-3000:]}
            break
        if case is None:
            out['skipped'] += 1
            continue
        if journal:
            with open(curfile, 'w') as f:
                json.dump({'j': j, 'case': case}, f, default=util._default)
        signal.setitimer(signal.ITIMER_REAL, case_timeout)
        try:
            res = prop.run(case)
        except CaseTimeout:
            res = {'status': 'inconclusive', 'why': f'case did not finish within {case_timeout}s wall clock'}
        except env.Inconclusive as e:
            res = {'status': 'inconclusive', 'why': str(e)}
        except BaseException as e:
            res = {'status': 'harness_error', 'why': ''.join(traceback.format_exception(type(e), e, e.__traceback__))[-3000:]}
        finally:
            signal.setitimer(signal.ITIMER_REAL, 0)
        out['done'] += 1
        st = res.get('status', 'ok')
        if st == 'skip':
            out['skipped'] += 1
            for ft in res.get('feats', ()):
                feats[ft] += 1
            continue
        out['evaluations'] += res.get('evals', 1)
        for ft in res.get('feats', ()):
            feats[ft] += 1
        if res.get('nontrivial'):
            hashes.add(res.get('sig') or util.sig(case))
        if st == 'violation':
            for v in res['violations'] if 'violations' in res else [res]:
                rec = {'j': j, 'case': case, 'mech': v.get('mech', 'unclassified'), 'what': v.get('what', ''),
                       'detail': v.get('detail')}
                vf.write(json.dumps(rec, default=util._default) + '\n')
                vf.flush()
                if len(out['violations']) < 200:
                    out['violations'].append({'j': j, 'mech': rec['mech'], 'what': rec['what']})
        elif st in ('inconclusive', 'harness_error'):
            if len(out['inconclusive']) < 50:
                out['inconclusive'].append({'j': j, 'status': st, 'why': res.get('why', ''), 'case': case})
        if len(out['samples']) < 3 and st == 'ok' and res.get('nontrivial'):
            out['samples'].append(res.get('sample', case))
        if now - last_flush > (2 if journal else 20):
            out['hashes'] = sorted(hashes)
            out['features'] = dict(feats)
            flush()
            last_flush = now
    vf.close()
    fin = getattr(prop, 'finish', None)
    if fin is not None:
        try:
            out['counters'] = fin() or {}
        except BaseException as e:
            out['fatal'] = {'kind': 'error', 'why': 'finish failed: ' + repr(e)}
    out['hashes'] = sorted(hashes)
    out['features'] = dict(feats)
    out['wall'] = time.monotonic() - t0
    try:
        os.remove(curfile)
    except OSError:
        pass
    flush()
    return 0


if __name__ == '__main__':
    sys.exit(main(sys.argv[1:]))
