"""Seeded generators of abstract documents (see emit.py for the node format).

Hostility knobs shared by the merge-family properties: a small key pool so that
paths written by different stages collide, keys equal to ancestor keys, int keys
next to str keys, underscore-prefixed str keys, empty containers, type changes
at a path between stages.
"""
import math

from .emit import M, L, S

STR_KEYS = ['a', 'b', 'c', 'd', '_u', 'a b', 'k1', 'B', '_', 'x.y']
INT_KEYS = [0, 1, 2, 3, -1, 7]
FLOAT_KEYS = [1.5, 0.25, -2.5]
# names the loader rejects by design (attributes of the node classes)
FORBIDDEN_KEYS = {'items', 'keys', 'values', 'update', 'clear', 'pop', 'popitem', 'get', 'copy', 'setdefault',
                  'fromkeys', 'ayns', 'append', 'extend', 'insert', 'remove', 'index', 'count', 'sort', 'reverse'}

HOSTILE_STRS = ['', ' ', 'null', 'true', '1', '1.5', '~', 'a: b', 'x #y', "it's", 'say "hi"', 'tab\there',
                'line1\nline2', 'trailing \n', '- item', '{curly}', '[sq]', '!bang', '&anchor', '*alias', '%pct',
                '@at', '`tick', 'é', '0x1F', '1e3', '.5', 'yes', 'No', 'ON', '=', '<<', 'a,b', 'key: [1, 2]',
                "f'{x}'", 'f"{y}"', '!force 1', 'text !weak', '2001-01-01x', '1_000', '+1', '-', '?', ':', '|', '>']


class Marker:
    """hands out unique scalar values so that an observed value names the write it came from"""
    def __init__(self, prefix='v'):
        self.n = 0
        self.prefix = prefix

    def next(self, rng, kind=None):
        self.n += 1
        kind = kind or rng.choice(['s', 's', 'i', 'f'])
        if kind == 's':
            return f'{self.prefix}{self.n}'
        if kind == 'i':
            return 1000 + self.n
        return self.n + 0.5


def rand_scalar(rng, hostile=True, marker=None):
    if marker is not None and rng.random() < 0.7:
        return marker.next(rng)
    r = rng.random()
    if r < 0.22:
        return rng.choice([0, 1, -1, 2, 7, 42, -13, 10 ** 6, 2 ** 40, 255])
    if r < 0.36:
        return rng.choice([0.0, 1.0, -1.5, 3.25, 1e-3, 1e10, 2.5e-7, 123456.789, float('inf'), float('-inf'), float('nan')])
    if r < 0.46:
        return rng.choice([True, False])
    if r < 0.54:
        return None
    if hostile and r < 0.75:
        return rng.choice(HOSTILE_STRS)
    return rng.choice(['x', 'y', 'foo', 'bar', 'hello world', 'v' + str(rng.randrange(100))])


def scalar_node(rng, v):
    n = S(v)
    if isinstance(v, str):
        n['style'] = rng.choice(['plain', 'dq', 'sq', 'dq', 'lit', 'fold'])
    elif v is None:
        n['nf'] = rng.choice(['~', 'null', 'null', ''])
    return n


def rand_key(rng, used, kinds=('s', 's', 's', 'i'), pool_s=STR_KEYS, pool_i=INT_KEYS, pool_f=FLOAT_KEYS):
    for _ in range(20):
        k = rng.choice(kinds)
        key = rng.choice(pool_s if k == 's' else pool_i if k == 'i' else pool_f)
        if key not in used and not any(key == u and type(key) is not type(u) for u in used):
            return key
    return None


def rand_node(rng, depth, *, kinds=('s', 's', 's', 'i'), width=4, hostile=True, marker=None, p_leaf=0.45,
              pool_s=STR_KEYS, allow_empty=True, seq_of_scalars_only=False, top=False, no_seq=False):
    """random tag-free abstract node"""
    r = rng.random()
    if not top and (depth <= 0 or r < p_leaf):
        return scalar_node(rng, rand_scalar(rng, hostile, marker))
    if top or r < p_leaf + 0.33 or (no_seq and r < 0.8):
        n = rng.randrange(0 if allow_empty and not top else 1, width + 1) if rng.random() < 0.9 else 0
        if top and n == 0 and rng.random() < 0.9:
            n = 1
        items, used = [], []
        for _ in range(n):
            k = rand_key(rng, used, kinds, pool_s)
            if k is None:
                break
            used.append(k)
            items.append([k, rand_node(rng, depth - 1, kinds=kinds, width=width, hostile=hostile, marker=marker,
                                       p_leaf=p_leaf, pool_s=pool_s, allow_empty=allow_empty,
                                       seq_of_scalars_only=seq_of_scalars_only, no_seq=no_seq)])
        return M(items)
    if no_seq:
        return scalar_node(rng, rand_scalar(rng, hostile, marker))
    n = rng.randrange(0 if allow_empty else 1, width + 1)
    if seq_of_scalars_only:
        return L([scalar_node(rng, rand_scalar(rng, hostile, marker)) for _ in range(n)])
    return L([rand_node(rng, depth - 1, kinds=kinds, width=width, hostile=hostile, marker=marker, p_leaf=p_leaf + 0.15,
                        pool_s=pool_s, allow_empty=allow_empty) for _ in range(n)])


def rand_doc(rng, depth=4, pathlike=0.15, **kw):
    d = rand_node(rng, depth, top=True, **kw)
    if rng.random() < pathlike:
        add_pathlike_keys(rng, d, kw.get('marker'))
    return d


def add_pathlike_keys(rng, doc, marker=None):
    """string keys spelled exactly like the path of another node of the same document ("a.b" next to a: {b: ..}, "x[1]")"""
    from .emit import walk
    cands = [path_str(p) for p, _ in walk(doc) if len(p) >= 2]
    cands = [c for c in cands if c and c not in [k for k, _ in doc['items']]]
    for c in rng.sample(cands, min(len(cands), rng.randrange(1, 3))):
        doc['items'].insert(rng.randrange(len(doc['items']) + 1), [c, scalar_node(rng, rand_scalar(rng, False, marker))])
    return doc


def mutate_doc(rng, base, depth=3, **kw):
    """a new document that revisits paths of `base` (same keys, changed values or
    shapes) and adds a few new ones: makes stages collide on purpose"""
    def rec(n, d):
        if n['t'] != 'map' or d <= 0:
            return rand_node(rng, d, **kw)
        items = []
        for k, c in n['items']:
            r = rng.random()
            if r < 0.35:
                continue                      # not mentioned by the newer document
            if r < 0.7 and c['t'] == 'map':
                items.append([k, rec(c, d - 1)])
            elif r < 0.62 and c['t'] == 'seq' and c['items']:
                # a list over a list whose elements revisit the old elements (containers at the same index on both sides)
                els = [rec(e, d - 1) if e['t'] == 'map' else rand_node(rng, d - 1, **kw) for e in c['items'][:rng.randrange(1, len(c['items']) + 1)]]
                if rng.random() < 0.3:
                    els.append(rand_node(rng, d - 1, **kw))
                items.append([k, L(els)])
            elif r < 0.8 and c['t'] == 'seq':
                # mapping addressing list indices (some invalid on purpose; an empty list has no valid index at all)
                n_el = len(c['items'])
                idxs = rng.sample(range(-n_el - 1, n_el + 2), k=min(2, n_el + 2))
                items.append([k, M([[i, rand_node(rng, d - 1, **kw)] for i in sorted(set(idxs))])])
            else:
                items.append([k, rand_node(rng, d - 1, **kw)])
        used = [k for k, _ in items] + [k for k, _ in n['items']]
        for _ in range(rng.randrange(0, 3)):
            k = rand_key(rng, used, kw.get('kinds', ('s', 's', 's', 'i')), kw.get('pool_s', STR_KEYS))
            if k is not None:
                used.append(k)
                items.append([k, rand_node(rng, d - 1, **kw)])
        rng.shuffle(items)
        return M(items)
    return rec(base, depth)


def rand_sequence(rng, n_docs, depth=4, pathlike=0.15, **kw):
    docs = [rand_doc(rng, depth, pathlike=pathlike, **kw)]
    for _ in range(n_docs - 1):
        if rng.random() < 0.75:
            docs.append(mutate_doc(rng, rng.choice(docs), depth, **kw))
        else:
            docs.append(rand_doc(rng, depth, pathlike=pathlike, **kw))
    return docs


def all_nodes(doc):
    from .emit import walk
    return list(walk(doc))


def nan_safe_eq(a, b):
    if isinstance(a, float) and isinstance(b, float) and math.isnan(a) and math.isnan(b):
        return True
    return a == b


# ------------------------------------------------------------------ tag placement
MD_STRS = ['x', "it's", 'say "hi"', 'both \' and "', 'open {{ brace', 'a: b', '#hash', 'multi\nline', '', ' lead', '}x', '{y']


def rand_md_value(rng, depth=2):
    r = rng.random()
    if depth <= 0 or r < 0.5:
        return rng.choice([0, 1, -3, 2.5, True, None] + MD_STRS)
    if r < 0.7:
        return [rand_md_value(rng, depth - 1) for _ in range(rng.randrange(0, 3))]
    if r < 0.85:
        return {'__tuple__': [rand_md_value(rng, depth - 1) for _ in range(rng.randrange(0, 3))]}
    return {rng.choice(['p', 'q', 'r s']): rand_md_value(rng, depth - 1) for _ in range(rng.randrange(0, 3))}


def rand_md(rng, names=('m1', 'm2', 'note', 'who')):
    return {k: rand_md_value(rng) for k in rng.sample(list(names), rng.randrange(1, 3))}


def place_flags(rng, doc, p=0.3, vocab=('prio', 'del', 'new', 'unsafe', 'md'), root=True, combos=0.2, notnew=False,
                on_scalars=True, on_seq_elems=True):
    """returns a copy of `doc` with random merge-control flags on random nodes"""
    import copy
    doc = copy.deepcopy(doc)

    def one(n, is_root, in_seq):
        if is_root and not root:
            return
        if n['t'] == 'sp':
            return
        if n['t'] == 'sc' and not on_scalars:
            return
        if in_seq and not on_seq_elems:
            return
        if rng.random() >= p:
            return
        k = 1 if rng.random() >= combos else rng.randrange(2, 4)
        for f in rng.sample(list(vocab), min(k, len(vocab))):
            if f == 'prio':
                n['prio'] = rng.choice([1, -1])
            elif f == 'del':
                n['del'] = rng.choice([True, False])
            elif f == 'new':
                n['new'] = True if not notnew else rng.choice([True, True, False])
            elif f == 'unsafe':
                n['unsafe'] = True
            elif f == 'md':
                n['md'] = rand_md(rng)
        if md_needed(n):
            n['mdsyn'] = rng.choice(['hex', 'brace'])

    def rec(n, is_root, in_seq):
        one(n, is_root, in_seq)
        if n['t'] == 'map':
            for _, c in n['items']:
                rec(c, False, False)
        elif n['t'] == 'seq':
            for c in n['items']:
                rec(c, False, True)

    rec(doc, True, False)
    return doc


def md_needed(n):
    from .emit import md_dict
    d = md_dict(n)
    return bool(n.get('md')) or len(d) > 1


# ------------------------------------------------------------------ full merge vocabulary
import re as _re
_SIMPLE = _re.compile(r'^[A-Za-z_][A-Za-z0-9_]*$')


def path_str(path):
    """NodePath text of a tuple path, or None if a component cannot be written"""
    out = ''
    for c in path:
        if isinstance(c, bool) or not isinstance(c, (int, str)):
            return None
        if isinstance(c, int):
            if c < 0:
                return None
            out += f'[{c}]'
        else:
            if not _SIMPLE.match(c):
                return None
            out += ('.' if out else '') + c
    return out


def doc_paths(doc, containers=True):
    from .emit import walk
    return [p for p, n in walk(doc) if p and (containers or n['t'] == 'sc')]


def add_specials(rng, doc, earlier, p=0.25, kinds=('clear', 'vdel', 'append', 'extend', 'prev', 'required')):
    """sprinkle structural nodes over the map values of `doc` (a later stage);
    `earlier` = documents before it, whose paths are used as targets"""
    from .emit import SP, S, L
    import copy
    doc = copy.deepcopy(doc)
    old_paths = [p for d in earlier for p in doc_paths(d)]
    kinds_at = {}
    for d in earlier:
        for q, nd in all_nodes(d):
            kinds_at[q] = nd['t']
    for mp, m in [(q, n) for q, n in all_nodes(doc) if n['t'] == 'map']:
        for it in m['items']:
            if rng.random() >= p:
                continue
            k = rng.choice(kinds)
            here = kinds_at.get(mp + (it[0],))
            sloppy = rng.random() < 0.15        # sometimes aim at something unsuitable on purpose
            if k == 'clear':
                if here in ('map', 'seq') or sloppy:
                    it[1] = SP('clear')
            elif k == 'vdel':
                it[1] = S(None, vdel=True)
            elif k == 'required':
                it[1] = SP('required')
            elif k in ('append', 'extend'):
                if here == 'seq' or k == 'extend' or sloppy:
                    it[1] = SP(k, args=L([scalar_node(rng, rand_scalar(rng, False)) for _ in range(rng.randrange(0, 3))]))
            elif k == 'prev':
                cands = [path_str(q) for q in old_paths]
                cands = [c for c in cands if c]
                if cands:
                    it[1] = SP('prev', path=rng.choice(cands))
    # also graft some special nodes onto keys that exist in earlier documents (so that they have something to act on)
    if earlier and rng.random() < 0.6 and doc['t'] == 'map':
        tops = [p for p in old_paths if len(p) == 1 and p[0] not in [k for k, _ in doc['items']]]
        if tops:
            k = rng.choice(tops)[0]
            kind = rng.choice(kinds)
            node = {'clear': SP('clear'), 'vdel': S(None, vdel=True), 'required': SP('required'),
                    'append': SP('append', args=L([S(101), S('ap')])), 'extend': SP('extend', args=L([S(102)])),
                    'prev': None}[kind]
            if node is not None:
                doc['items'].append([k, node])
    return doc


def rand_merge_sequence(rng, n_docs, depth=3, flags_p=0.25, specials_p=0.2, vocab=('prio', 'del', 'new', 'md'),
                        special_kinds=('clear', 'vdel', 'append', 'extend', 'prev'), notnew=True, pool_s=None, **kw):
    pool = pool_s or ['a', 'b', 'c', 'd', '_u', 'k1']
    docs = rand_sequence(rng, n_docs, depth, pool_s=pool, **kw)
    out = []
    for i, d in enumerate(docs):
        d = place_flags(rng, d, p=flags_p, vocab=vocab, notnew=notnew and i > 0)
        if i > 0 and specials_p > 0:
            d = add_specials(rng, d, docs[:i], p=specials_p, kinds=special_kinds)
        out.append(d)
    return out


# ------------------------------------------------------------------ dynamic / structural node kinds
BUILDABLE_KINDS = ('null', 'xref', 'call', 'bind', 'eval', 'fstr', 'import', 'path')
STATIC_KINDS = BUILDABLE_KINDS + ('required', 'clear', 'prev', 'append', 'extend', 'include', 'rec')
FLAGGABLE = ('xref', 'required', 'null', 'clear', 'extend', 'eval', 'call', 'bind', 'path')
EVAL_CODES = ['1 + 1', '"a" * 3', '[i * 2 for i in range(3)]', 'x = 2\nx ** 5', 'def f(a):\n    return a + 1\nf(41)',
              'import math\nmath.floor(2.5)', '{"k": (1, 2)}', 'len("abc") or None']
FSTR_TEXTS = ['plain text', 'sum {1 + 2}', '{"q"!r} and {3.14159:.2f}', "it's {len('ab')}"]
IMPORTS = ['math.pi', 'os.path.join', 'collections.OrderedDict', 'len']


def rand_special(rng, kind, targets=(), in_seq=False, serial=[0]):
    from .emit import SP, S, L, M
    serial[0] += 1
    n = serial[0]
    if kind == 'null':
        return SP('null')
    if kind in ('required', 'clear'):
        return SP(kind)
    if kind == 'xref':
        return SP(rng.choice(['xref', 'xref', 'ref']), path=rng.choice(list(targets)) if targets else 'missing.path')
    if kind == 'prev':
        return SP('prev', path=rng.choice(list(targets)) if targets else 'nowhere')
    if kind in ('append', 'extend'):
        return SP(kind, args=L([scalar_node(rng, rand_scalar(rng, False)) for _ in range(rng.randrange(0, 3))]))
    if kind in ('call', 'bind'):
        func = f'verif_targets.t{n}'
        r = rng.random()
        if r < 0.25:
            return SP(kind, func=func, args=None)
        if r < 0.6:
            args = M([[k, scalar_node(rng, rand_scalar(rng, False))] for k in rng.sample(['x', 'y', 0, 1, 'zed'], rng.randrange(0, 4))])
        else:
            args = L([scalar_node(rng, rand_scalar(rng, False)) for _ in range(rng.randrange(0, 3))])
        return SP(kind, func=func, args=args)
    if kind == 'eval':
        return SP('eval', code=rng.choice(EVAL_CODES))
    if kind == 'fstr':
        t = rng.choice(FSTR_TEXTS)
        return SP('fstr', text=t)
    if kind == 'import':
        return SP('import', name=rng.choice(IMPORTS))
    if kind == 'include':
        return SP('include', files=rng.choice(['other.yaml', ['a.yaml', 'sub/b.yaml']]))
    if kind == 'rec':
        return SP('rec', file='rec_target.yaml')
    if kind == 'path':
        return SP('path', ref=rng.choice([None, 'cwd', 'abs(/opt/data)', 'parent', 'parent(1)', 'file']),
                  parts=[rng.choice(['x', 'sub dir', '..', 'f.txt']) for _ in range(rng.randrange(1, 3))])
    raise ValueError(kind)


def decorate_specials(rng, doc, kinds, p=0.3, flag_p=0.3, flag_vocab=('prio', 'del', 'new', 'unsafe', 'md')):
    """replace random scalar leaves of `doc` by special nodes of the given kinds"""
    import copy
    from .emit import walk
    doc = copy.deepcopy(doc)
    tops = [path_str((k,)) for k, c in doc['items'] if c['t'] != 'sp']
    tops = [t for t in tops if t]
    deep = [path_str(q) for q, nd in walk(doc) if q and nd['t'] != 'sp']
    targets = [t for t in deep if t] or tops

    def rec(n, in_seq):
        its = n['items']
        for i in range(len(its)):
            c = its[i][1] if n['t'] == 'map' else its[i]
            if c['t'] in ('map', 'seq'):
                rec(c, c['t'] == 'seq')
                continue
            if c['t'] != 'sc' or rng.random() >= p:
                continue
            allowed = [k for k in kinds if not (n['t'] == 'seq' and k in ('required', 'clear', 'prev', 'append', 'extend', 'include', 'rec'))]
            if not allowed:
                continue
            kind = rng.choice(allowed)
            sp = rand_special(rng, kind, targets)
            if kind in FLAGGABLE and rng.random() < flag_p and not (kind in ('call', 'bind') and sp.get('args') is None and False):
                for f in rng.sample(list(flag_vocab), rng.randrange(1, 3)):
                    if f == 'prio':
                        sp['prio'] = rng.choice([1, -1])
                    elif f == 'del':
                        sp['del'] = rng.choice([True, False])
                    elif f == 'new':
                        sp['new'] = True
                    elif f == 'unsafe':
                        sp['unsafe'] = True
                    elif f == 'md':
                        sp['md'] = rand_md(rng)
                sp['mdsyn'] = rng.choice(['hex', 'brace'])
                if kind == 'path' and '/' in (sp.get('ref') or ''):
                    sp['mdsyn'] = 'hex'     # the {{..}} form is only recognised after [a-zA-Z0-9_:.()] tag characters
            if n['t'] == 'map':
                its[i][1] = sp
            else:
                its[i] = sp
    rec(doc, False)
    return doc
