"""M-sched: a controlled thread scheduler built on sys.monitoring LINE events.

Exactly one workload thread holds the token and runs; at every LINE event in
code under awesomeyaml/ or yaml/ the running thread may hand the token to
another one.  Three policies:
  random(seed, p)  - switch with probability p at each event
  sweep(points)    - switch exactly when the global event counter hits a point
                     (depth-1 / depth-2 preemption sweeps)
  none             - no preemption (sequential under the same instrumentation)
Every switch is recorded as (event number, from, to, file:line), which gives
the schedule hash and the set of preemption sites for the evidence.
"""
import os
import sys
import random
import threading

TOOL = 4


class Sched:
    def __init__(self, n, policy, seed=0, p=0.05, points=(), fnames=()):
        self.fnames = frozenset(fnames)        # policy 'stepfn': hand the turn over at every line of these functions (lock-step through them)
        self.n = n
        self.policy = policy
        self.r = random.Random(seed)
        self.p = p
        self.points = set(points)
        self.cv = threading.Condition()
        self.cur = 0
        self.alive = set(range(n))
        self.tid = {}
        self.events = 0
        self.trace = []
        self.sites = set()
        self.deadlock = False

    def register(self, i):
        self.tid[threading.get_ident()] = i

    def wait_turn(self, i):
        with self.cv:
            while self.cur != i:
                if not self.cv.wait(60):
                    self.deadlock = True
                    return

    def yield_point(self, code, line):
        i = self.tid.get(threading.get_ident())
        if i is None:
            return
        self.events += 1
        if len(self.alive) < 2:
            return
        if self.policy == 'random':
            go = self.r.random() < self.p
        elif self.policy == 'sweep':
            go = self.events in self.points
        elif self.policy == 'stepfn':
            go = code.co_name in self.fnames
        else:
            go = False
        if not go:
            return
        with self.cv:
            others = sorted(self.alive - {i})
            if not others:
                return
            nxt = self.r.choice(others) if self.policy == 'random' else others[(self.events + i) % len(others)]
            self.cur = nxt
            site = (os.path.basename(code.co_filename), line)
            self.trace.append((self.events, i, nxt, site))
            self.sites.add(site)
            self.cv.notify_all()
            while self.cur != i:
                if not self.cv.wait(60):
                    self.deadlock = True
                    return

    def done(self, i):
        with self.cv:
            self.alive.discard(i)
            if self.alive and self.cur == i:
                self.cur = sorted(self.alive)[0]
            elif self.alive and self.cur not in self.alive:
                self.cur = sorted(self.alive)[0]
            self.cv.notify_all()


class Instrument:
    """installs the LINE callback once per process; `current` is the active Sched (or None)"""
    def __init__(self, prefixes):
        self.prefixes = tuple(prefixes)
        self.current = None
        self.installed = False

    def install(self):
        if self.installed:
            return
        mon = sys.monitoring
        mon.use_tool_id(TOOL, 'verif-sched')
        mon.register_callback(TOOL, mon.events.LINE, self._on_line)
        self.installed = True

    def _on_line(self, code, line):
        if not code.co_filename.startswith(self.prefixes):
            return sys.monitoring.DISABLE
        s = self.current
        if s is not None:
            s.yield_point(code, line)

    def run(self, sched, jobs, timeout=90):
        """jobs: list of callables(i) -> result; returns (results, ok)"""
        mon = sys.monitoring
        out = {}

        def body(i, fn):
            sched.register(i)
            sched.wait_turn(i)
            try:
                out[i] = fn(i)
            finally:
                sched.done(i)
        self.current = sched
        mon.set_events(TOOL, mon.events.LINE)
        ths = [threading.Thread(target=body, args=(i, fn), daemon=True) for i, fn in enumerate(jobs)]
        try:
            for t in ths:
                t.start()
            for t in ths:
                t.join(timeout)
        finally:
            mon.set_events(TOOL, 0)
            self.current = None
        alive = any(t.is_alive() for t in ths)
        return out, not alive and not sched.deadlock
