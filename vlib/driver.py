"""Shards a check over child processes, merges what their monitors observed,
classifies violations against known_findings.json, writes evidence and replay
files, and decides the three-valued verdict (exit 0 held / 1 violated / 2 inconclusive).
"""
import os
import sys
import json
import time
import shutil
import signal
import argparse
import tempfile
import importlib
import subprocess
import collections

from . import env, util

NPROC = min(16, os.cpu_count() or 1)


def load_known():
    p = os.path.join(env.VERIF, 'known_findings.json')
    try:
        with open(p) as f:
            data = json.load(f)
    except FileNotFoundError:
        return {}
    known = {}
    for e in data.get('findings', []):
        if e.get('status', 'known') == 'known':
            known[(e['property'], e['mechanism'])] = e
    return known


def spawn(pid, tier, seed, shard, nshards, ncases, budget, outdir, startj=None):
    e = env.child_env()
    if startj is not None:
        e['VERIF_STARTJ'] = str(startj)
    log = open(os.path.join(outdir, f'log_{shard}.txt'), 'ab')
    return subprocess.Popen([sys.executable, '-m', 'vlib.worker', pid, tier, str(seed), str(shard), str(nshards),
                             str(ncases), str(budget), outdir], cwd=env.VERIF, env=e, stdout=log, stderr=log,
                            start_new_session=True), log


def run_check(pid, tier, seed, cases=None, jobs=None, budget=None, quiet=False):
    prop = importlib.import_module('vlib.props.' + pid.lower())
    cfg = dict(prop.TIERS[tier])
    if cases is not None:
        cfg['cases'] = cases
    if budget is not None:
        cfg['budget'] = budget
    nshards = max(1, min(jobs or NPROC, cfg.get('max_shards', NPROC), cfg['cases']))
    t0 = time.time()
    outdir = tempfile.mkdtemp(prefix=f'verif_{pid}_')
    known = load_known()
    merged = {'evaluations': 0, 'done': 0, 'skipped': 0, 'hashes': set(), 'features': collections.Counter(),
              'samples': [], 'counters': collections.Counter(), 'inconclusive': [], 'fatal': [], 'init': None,
              'crashes': []}
    vios = []
    if getattr(prop, 'NEED_DEPS', False):
        env.ensure_deps()              # once, before the shards start (each shard checks again and reports inconclusive if it is missing)
    try:
        procs = {}
        for s in range(nshards):
            procs[s] = spawn(pid, tier, seed, s, nshards, cfg['cases'], cfg['budget'], outdir)
        watchdog = cfg['budget'] * 2 + 180
        deadline = time.time() + watchdog
        respawns = 0
        while procs:
            time.sleep(0.2)
            for s, (p, log) in list(procs.items()):
                rc = p.poll()
                if rc is None:
                    if time.time() > deadline:
                        try:
                            os.killpg(p.pid, signal.SIGKILL)
                        except OSError:
                            pass
                        p.wait()
                        log.close()
                        del procs[s]
                        merged['fatal'].append({'kind': 'inconclusive', 'why': f'shard {s} hit the {watchdog:.0f}s wall-clock watchdog'})
                    continue
                log.close()
                del procs[s]
                cur = os.path.join(outdir, f'cur_{s}.json')
                if rc not in (0, 2, 3) or (rc == 0 and not os.path.exists(os.path.join(outdir, f'sum_{s}.json'))):
                    # the interpreter died: the journalled case is the culprit
                    culprit = None
                    if os.path.exists(cur):
                        with open(cur) as f:
                            culprit = json.load(f)
                        os.rename(cur, os.path.join(outdir, f'crash_{s}_{culprit["j"]}.json'))
                    merged['crashes'].append({'shard': s, 'rc': rc, 'culprit': culprit})
                    if culprit is not None and getattr(prop, 'CRASH_IS_VIOLATION', False):
                        mech = prop.classify_crash(culprit['case'], rc) if hasattr(prop, 'classify_crash') else 'interpreter-crash'
                        vios.append({'j': culprit['j'], 'case': culprit['case'], 'mech': mech,
                                     'what': f'child interpreter died with status {rc} while running this case', 'detail': None})
                        if respawns < cfg.get('max_respawns', 400):
                            respawns += 1
                            # keep what the shard had observed so far, then continue after the culprit
                            _absorb(outdir, s, merged, vios, partial=True)
                            procs[s] = spawn(pid, tier, seed, s, nshards, cfg['cases'], cfg['budget'], outdir,
                                             startj=culprit['j'] + nshards)
                    else:
                        merged['fatal'].append({'kind': 'inconclusive', 'why': f'shard {s} died with status {rc}' +
                                                (f' on case j={culprit["j"]}' if culprit else '') +
                                                ': ' + _tail(os.path.join(outdir, f'log_{s}.txt'))})
                    continue
                _absorb(outdir, s, merged, vios)
        wall = time.time() - t0
        return _verdict(prop, pid, tier, seed, cfg, nshards, merged, vios, known, wall, quiet)
    finally:
        shutil.rmtree(outdir, ignore_errors=True)


def _tail(path, n=600):
    try:
        with open(path, 'rb') as f:
            return f.read()[-n:].decode('utf8', 'replace')
    except OSError:
        return ''


def _absorb(outdir, s, merged, vios, partial=False):
    sf = os.path.join(outdir, f'sum_{s}.json')
    vf = os.path.join(outdir, f'vio_{s}.jsonl')
    if os.path.exists(vf):
        with open(vf) as f:
            for line in f:
                line = line.strip()
                if line:
                    try:
                        vios.append(json.loads(line))
                    except ValueError:
                        pass
        os.remove(vf)
    if not os.path.exists(sf):
        return
    with open(sf) as f:
        o = json.load(f)
    os.remove(sf)
    merged['evaluations'] += o['evaluations']
    merged['done'] += o['done']
    merged['skipped'] += o['skipped']
    merged['hashes'].update(o['hashes'])
    merged['features'].update(o['features'])
    for k, v in (o.get('counters') or {}).items():
        if isinstance(v, (int, float)):
            merged['counters'][k] += v
    merged['samples'].extend(o['samples'])
    merged['inconclusive'].extend(o['inconclusive'])
    if o.get('fatal'):
        merged['fatal'].append(o['fatal'])
    if o.get('init') and merged['init'] is None:
        merged['init'] = o['init']


def _verdict(prop, pid, tier, seed, cfg, nshards, merged, vios, known, wall, quiet):
    replay_dir = os.path.join(env.VERIF, 'replay', pid)
    os.makedirs(replay_dir, exist_ok=True)
    for old in os.listdir(replay_dir):          # witnesses of earlier runs of this tier are stale
        if old.startswith(tier + '-') or old.startswith('known-'):
            os.remove(os.path.join(replay_dir, old))
    real, knownhits = [], collections.OrderedDict()
    seen_real = collections.Counter()
    for v in sorted(vios, key=lambda v: v['j']):
        key = (pid, v['mech'])
        if key in known:
            knownhits.setdefault(v['mech'], []).append(v)
        else:
            real.append(v)
    lines = []
    for mech, vs in knownhits.items():
        path = os.path.join(replay_dir, f'known-{mech.replace(":", "_").replace("/", "_")}.json')
        _write_replay(path, pid, tier, seed, vs[0])
        lines.append(f'KNOWN-FINDING: property={pid} {mech}: {known[(pid, mech)].get("what", "")} '
                     f'[{len(vs)} case(s) this run, e.g. replay={path}]')
    written = 0
    for v in real:
        seen_real[v['mech']] += 1
        if seen_real[v['mech']] > 3 or written >= 25:
            continue
        path = os.path.join(replay_dir, f'{tier}-{seed}-{v["j"]}.json')
        _write_replay(path, pid, tier, seed, v)
        written += 1
        lines.append(f'VIOLATION property={pid} replay={path}')
        lines.append(f'  mechanism={v["mech"]} :: {util.short(v["what"], 600)}')
    status = 'held'
    reasons = []
    if real:
        status = 'violated'
    else:
        for ft in merged['fatal']:
            reasons.append(f'{ft["kind"]}: ...{ft["why"][-700:]}')
        if merged['inconclusive']:
            reasons.append(f'{len(merged["inconclusive"])} case(s) inconclusive, first: '
                           f'{merged["inconclusive"][0]["status"]}: {util.short(merged["inconclusive"][0]["why"], 1500)}')
        if merged['evaluations'] == 0:
            reasons.append('no case was evaluated')
        for name, minimum in getattr(prop, 'MIN_COUNTERS', {}).items():
            got = merged['counters'].get(name, 0) + merged['features'].get(name, 0)
            if got < minimum:
                reasons.append(f'monitor counter {name}={got} below the minimum {minimum}: the deciding monitor was not reached')
        if len(merged['hashes']) < 2:
            reasons.append('fewer than 2 distinct non-trivial cases were observed')
        if merged['crashes'] and not getattr(prop, 'CRASH_IS_VIOLATION', False):
            reasons.append(f'{len(merged["crashes"])} child crash(es)')
        if reasons:
            status = 'inconclusive'
    level = prop.LEVEL
    coverage = {
        'evaluations': merged['evaluations'],
        'distinct_nontrivial': len(merged['hashes']),
        'rule': prop.RULE,
        'samples': merged['samples'][:4] or [v['case'] for v in (real or [x for vs in knownhits.values() for x in vs])[:2]],
        'features_observed': dict(sorted(merged['features'].items())),
        'monitor_counters': dict(sorted(merged['counters'].items())),
        'cases_requested': cfg['cases'],
        'cases_run': merged['done'],
        'cases_skipped_by_generator_or_precondition': merged['skipped'],
        'shards': nshards,
        'budget_s_per_shard': cfg['budget'],
        'calibration': merged['init'],
        'known_findings_hit': {m: len(vs) for m, vs in knownhits.items()},
        'unlisted_violation_mechanisms': dict(seen_real),
        'child_crashes': len(merged['crashes']),
        'verdict': status,
        'inconclusive_reasons': reasons,
        'exhaustive': False,
    }
    extra = getattr(prop, 'coverage_extra', None)
    if extra is not None:
        coverage.update(extra(merged, vios))
    ev = {
        'property_id': pid, 'tier': tier, 'seed': seed, 'level': level, 'coverage': coverage,
        'assumptions': list(getattr(prop, 'ASSUMPTIONS', [])), 'wall_s': round(wall, 2), 'violations': len(real),
    }
    os.makedirs(os.path.join(env.VERIF, 'evidence'), exist_ok=True)
    with open(os.path.join(env.VERIF, 'evidence', f'{pid}.json'), 'w') as f:
        json.dump(ev, f, indent=1, default=util._default)
        f.write('\n')
    for ln in lines:
        print(ln)
    if not quiet:
        print(f'[{pid}] tier={tier} seed={seed} verdict={status} evaluations={merged["evaluations"]} '
              f'distinct_nontrivial={len(merged["hashes"])} violations={len(real)} known={sum(len(v) for v in knownhits.values())} '
              f'skipped={merged["skipped"]} wall={wall:.1f}s')
        if merged['counters']:
            print(f'[{pid}] monitor counters: ' + ', '.join(f'{k}={v}' for k, v in sorted(merged['counters'].items())))
        for r in reasons:
            print(f'[{pid}] INCONCLUSIVE: {r}')
    sys.stdout.flush()
    return {'held': 0, 'violated': 1, 'inconclusive': 2}[status]


def _write_replay(path, pid, tier, seed, v):
    with open(path, 'w') as f:
        json.dump({'property': pid, 'tier': tier, 'seed': seed, 'j': v['j'], 'mechanism': v['mech'], 'what': v['what'],
                   'detail': v.get('detail'), 'case': v['case']}, f, indent=1, default=util._default)
        f.write('\n')


def replay(pid, path):
    code = ("import sys, json; from vlib import env, worker; prop = worker.load_prop(sys.argv[1]); "
            "env.setup(need_deps=getattr(prop, 'NEED_DEPS', False)); "
            "i = getattr(prop, 'init', None); i and i('quick'); "
            "rec = json.load(open(sys.argv[2])); res = prop.run(rec['case']); "
            "print(json.dumps(res, indent=1, default=repr)); "
            "sys.exit(1 if res.get('status') == 'violation' else 0)")
    p = subprocess.run([sys.executable, '-c', code, pid, path], cwd=env.VERIF, env=env.child_env(), timeout=600)
    if p.returncode == 1:
        print(f'VIOLATION property={pid} replay={path}')
        return 1
    if p.returncode != 0:
        print(f'[{pid}] replay child exited with status {p.returncode}')
        return 1 if p.returncode < 0 else 2
    return 0


def main(argv=None):
    ap = argparse.ArgumentParser(prog='check')
    ap.add_argument('prop')
    ap.add_argument('--tier', choices=['quick', 'thorough'], default=None)
    ap.add_argument('--seed', type=int, default=None)
    ap.add_argument('--cases', type=int, default=None)
    ap.add_argument('--jobs', type=int, default=None)
    ap.add_argument('--budget', type=float, default=None)
    ap.add_argument('--replay', default=None)
    a = ap.parse_args(argv)
    pid = a.prop.upper()
    if a.replay:
        return replay(pid, a.replay)
    tier = a.tier or os.environ.get('VERIF_TIER') or 'quick'
    if tier not in ('quick', 'thorough'):
        tier = 'quick'
    seed = a.seed if a.seed is not None else int(os.environ.get('VERIF_SEED', '0') or 0)
    return run_check(pid, tier, seed, a.cases, a.jobs, a.budget)


if __name__ == '__main__':
    sys.exit(main())
