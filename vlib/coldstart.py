"""First use of the library by two threads at once, in a process of its own.

The scalar node classes (ConfigScalar(int), ConfigScalar(float), ...) are created the first time a value of that type is wrapped.
A worker process has long created them all, so the only faithful way to observe "two builds which are the first ones of their
process" is a fresh interpreter: this module is run as  python -m vlib.coldstart <policy> <seed>  by C20, builds two small documents
in two threads under the controlled scheduler (lock-step through the node metaclass calls, or a random schedule) and prints one JSON
line: for either thread whether the build worked, whether every scalar node is an instance of THE registered class of its kind,
and whether the built tree can be pickled (an unregistered class cannot).
"""
import sys
import json
import pickle
import random


def main(policy, seed):
    from . import env, sched
    env.setup()
    from awesomeyaml.builder import Builder
    from awesomeyaml.nodes.scalar import ConfigScalar
    from awesomeyaml.nodes.node import ConfigNode
    rng = random.Random(seed)
    vals = [['1', '2.5', 'true', '~', 'text'], ['7', '0.25', 'false', 'null', 'other']]
    docs = []
    order = list(range(5))
    rng.shuffle(order)                   # (the same order in both documents: the threads need the same new class at the same time)
    for v in vals:
        docs.append(''.join(f'k{i}: {v[i]}\n' for i in order) + 'nest: {a: [' + ', '.join(v[i] for i in order) + ']}\n')

    def job(i):
        try:
            b = Builder()
            b.add_source(docs[i], raw_yaml=True)
            tree = b.build()
        except BaseException as e:
            return {'ok': False, 'error': f'{type(e).__name__}: {e}'[:300]}
        foreign = []
        for p, n in tree.ayns.nodes_with_paths():
            if isinstance(n, ConfigNode) and type(n).__name__.startswith('ConfigScalar('):
                reg = ConfigScalar(type(n.ayns.native_value))
                if type(n) is not reg:
                    foreign.append(f'{p!s}: {type(n).__name__} at {id(type(n)):#x}, registered class at {id(reg):#x}')
        try:
            pickle.loads(pickle.dumps(tree))
            pk = True
        except Exception as e:
            pk = f'{type(e).__name__}: {e}'[:200]
        return {'ok': True, 'foreign_classes': foreign[:3], 'n_foreign': len(foreign), 'pickles': pk}

    inst = sched.Instrument([env.REPO])
    inst.install()
    if policy == 'stepfn':
        s = sched.Sched(2, 'stepfn', fnames=['__call__'])
    else:
        s = sched.Sched(2, 'random', seed=seed, p=0.2)
    out, ok = inst.run(s, [job, job], timeout=60)
    print(json.dumps({'finished': bool(ok), 'switches': len(s.trace), 'threads': {str(i): out.get(i) for i in (0, 1)}}))


if __name__ == '__main__':
    main(sys.argv[1], int(sys.argv[2]))
