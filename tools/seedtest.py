#!/venv/bin/python
"""Validate a seeded change and run checks against it.

usage: tools/seedtest.py <dir with patch.diff, demo.py, meta.json> [--checks C01,C05 | --all] [--tier quick] [--seeds 0,1]

1. fresh scratch worktree of /repo HEAD under /tmp; baseline demo must exit 0
2. apply patch; pinned test suite must still pass (101 stable tests); demo must exit non-zero
3. run the requested checks with VERIF_REPO=<scratch> and report which ones raise a VIOLATION
4. remove the worktree
"""
import os, sys, json, subprocess, tempfile, shutil, argparse
ap = argparse.ArgumentParser()
ap.add_argument('dir'); ap.add_argument('--checks', default=None); ap.add_argument('--all', action='store_true')
ap.add_argument('--tier', default='quick'); ap.add_argument('--seeds', default='0'); ap.add_argument('--keep', action='store_true')
a = ap.parse_args()
d = os.path.abspath(a.dir)
meta = json.load(open(os.path.join(d, 'meta.json'))) if os.path.exists(os.path.join(d, 'meta.json')) else {}
prop = meta.get('property') or os.path.basename(d)
wt = tempfile.mkdtemp(prefix='seedwt_')
os.rmdir(wt)
subprocess.run(['git', '-C', '/repo', 'worktree', 'add', '-q', wt, 'HEAD'], check=True)
env = dict(os.environ); env['PYTHONPATH'] = wt; env['PYTHONDONTWRITEBYTECODE'] = '1'
res = {'property': prop, 'dir': d}
try:
    def demo():
        return subprocess.run(['/venv/bin/python', os.path.join(d, 'demo.py')], cwd=wt, env=env, capture_output=True, text=True, timeout=600)
    p0 = demo()
    res['demo_on_unmodified'] = p0.returncode
    ap_ = subprocess.run(['git', '-C', wt, 'apply', os.path.join(d, 'patch.diff')], capture_output=True, text=True)
    res['patch_applies'] = ap_.returncode == 0
    if not res['patch_applies']:
        res['apply_error'] = ap_.stderr[-300:]
    else:
        p1 = demo()
        res['demo_on_modified'] = p1.returncode
        res['demo_output_tail'] = (p1.stdout + p1.stderr)[-300:]
        t = subprocess.run(['/venv/bin/python', '/verif/tools/regress.py', wt], capture_output=True, text=True, env={k: v for k, v in os.environ.items()})
        res['tests'] = [l for l in t.stdout.splitlines() if l.startswith('pinned') or l.startswith('fixtures') or l.startswith('vs pinned') or 'MISSING' in l or 'REGRESSED' in l]
        res['tests_ok'] = t.returncode == 0
        checks = []
        if a.all:
            checks = [json.loads(l)['id'] for l in open('/verif/properties.jsonl')]
        elif a.checks:
            checks = a.checks.split(',')
        else:
            checks = [prop]
        res['checks'] = {}
        e2 = dict(os.environ); e2['VERIF_REPO'] = wt
        for c in checks:
            for s in a.seeds.split(','):
                q = subprocess.run(['/verif/check', c, '--tier', a.tier, '--seed', s], cwd='/verif', env=e2, capture_output=True, text=True, timeout=3600)
                lines = [l for l in q.stdout.splitlines() if l.startswith('VIOLATION') or 'mechanism=' in l]
                res['checks'][f'{c}@{s}'] = {'exit': q.returncode, 'violations': len([l for l in lines if l.startswith('VIOLATION')]),
                                             'first': (lines[1][:300] if len(lines) > 1 else ''), 'verdict': [l for l in q.stdout.splitlines() if 'verdict=' in l][-1:]}
finally:
    if not a.keep:
        subprocess.run(['git', '-C', '/repo', 'worktree', 'remove', '--force', wt])
    subprocess.run(['git', '-C', '/verif', 'checkout', '--', 'evidence'], capture_output=True)
print(json.dumps(res, indent=1))
