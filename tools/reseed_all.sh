#!/bin/bash
# re-confirm every kept seeded change against /repo HEAD and re-run its property's check (mutation regression for the checks themselves)
cd /verif
for d in seeded/*/; do n=$(basename $d); tools/keepseed.py /verif/seeded/$n $n 2>&1 | grep -v conda; done
