#!/bin/bash
# usage: tools/sweep.sh <tier> <seed>...   - every check on the unchanged tree, one line per check and seed
cd /verif
tier=$1; shift
for s in "$@"; do
  for i in $(seq -w 1 20); do
    out=$(PYTHONHASHSEED=0 ./check C$i --tier $tier --seed $s 2>&1); rc=$?
    echo "seed=$s C$i rc=$rc $(echo "$out" | grep -E 'verdict=' | tail -1 | cut -c1-160)"
    if [ $rc -ne 0 ]; then echo "$out" | grep -E 'VIOLATION|mechanism=|INCONCLUSIVE|why' | cut -c1-600 | head -5; fi
  done
done
