#!/venv/bin/python
"""Regenerates MANIFEST.json from the property modules that exist (single source
of truth: vlib/props/cXX.py define LEVEL/LEVEL_TEXT/LEVEL_NOTE/TECHNIQUE/DESIGN_REF)."""
import os, sys, json, importlib
V = os.path.dirname(os.path.dirname(os.path.abspath(__file__)))
sys.path.insert(0, V)
props = [json.loads(l) for l in open(os.path.join(V, 'properties.jsonl'))]
NA = json.load(open(os.path.join(V, 'tools', 'not_applicable.json')))
checks, na = [], []
for p in props:
    pid = p['id']
    f = os.path.join(V, 'vlib', 'props', pid.lower() + '.py')
    if os.path.exists(f) and pid not in NA:
        m = importlib.import_module('vlib.props.' + pid.lower())
        checks.append({
            'property_id': pid,
            'quick_cmd': f'./check {pid} --tier quick',
            'thorough_cmd': f'./check {pid} --tier thorough',
            'evidence_file': f'/verif/evidence/{pid}.json',
            'replay_cmd_template': f'./check {pid} --replay {{path}}',
            'engine': 'vlib',
            'level_claimed': {'category': m.LEVEL, 'text': m.LEVEL_TEXT, 'design_ref': getattr(m, 'DESIGN_REF', 'DESIGN.md section 3, ' + pid)},
            'level_note': m.LEVEL_NOTE,
            'technique': m.TECHNIQUE,
        })
    else:
        na.append({'property_id': pid, 'reason': NA.get(pid, 'check not built yet in this phase; see DESIGN.md section 3 for the planned monitor')})
man = {
    'version': 1,
    'setup_cmd': '/venv/bin/python -c "import sys; sys.path.insert(0, \'/verif\'); from vlib import env; sys.exit(0 if env.ensure_deps() else 1)"',
    'hooks': {'guard': 'AWESOMEYAML_VERIF', 'enable': 'no source hooks: monitors are attached from the harness (sys.monitoring, audit hooks, planted recorders, icontract); checks export AWESOMEYAML_VERIF=1 anyway',
              'baseline_off_cmd': 'cd /repo && /venv/bin/python -m pytest -ra -q -p no:cacheprovider --timeout=900 --continue-on-collection-errors',
              'source_commits': [], 'add_only': True},
    'engines': [{'name': 'vlib', 'path': '/verif/vlib', 'serves_properties': [c['property_id'] for c in checks],
                 'kind_free_text': 'runtime monitoring: seeded hostile workloads against the real library in child processes; oracles = executable reference models, metamorphic relations, recorded invocation histories, invariant walkers, controlled thread scheduler'}],
    'checks': checks,
    'not_applicable': na,
    'notes': 'Every verdict is "held on the executions observed"; exit 2 = inconclusive (monitor not reached / harness problem). Known findings are in known_findings.json keyed by mechanism.',
}
json.dump(man, open(os.path.join(V, 'MANIFEST.json'), 'w'), indent=1)
print(f'{len(checks)} checks, {len(na)} not claimed')
