"""line-ending preserving in-place replacement helper: repl(path, old, new)"""
def repl(path, old, new, count=1):
    with open(path, newline='') as f:
        s = f.read()
    crlf = '\r\n' in s
    if crlf:
        old = old.replace('\n', '\r\n'); new = new.replace('\n', '\r\n')
    assert s.count(old) >= 1, f'pattern not found in {path}'
    assert count is None or s.count(old) == count, f'pattern occurs {s.count(old)} times in {path}'
    s = s.replace(old, new)
    with open(path, 'w', newline='') as f:
        f.write(s)
