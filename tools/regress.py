#!/venv/bin/python
"""Regression gate for every change to /repo: (1) the pinned pytest baseline
(101 stable tests must still pass), (2) all 174 YAML fixtures through a
crash-tolerant runner (pytest itself aborts on an !eval fixture on the pinned
tree).  usage: tools/regress.py [repo_dir]"""
import os, sys, json, subprocess, tempfile, xml.etree.ElementTree as ET
repo = os.path.abspath(sys.argv[1]) if len(sys.argv) > 1 else '/repo'
base = json.load(open('/root/.vp/BASELINE.json'))
env = dict(os.environ); env.pop('AWESOMEYAML_VERIF', None); env['PYTHONPATH'] = repo; env['PYTHONDONTWRITEBYTECODE'] = '1'
with tempfile.TemporaryDirectory() as td:
    x = os.path.join(td, 'j.xml')
    p = subprocess.run(['/venv/bin/python', '-m', 'pytest', '-ra', '-q', '-p', 'no:cacheprovider', '--timeout=900',
                        '--continue-on-collection-errors', '--junitxml=' + x], cwd=repo, env=env, capture_output=True, text=True)
    passed = set()
    for tc in ET.parse(x).getroot().iter('testcase'):
        if not list(tc):
            passed.add(tc.attrib.get('classname', '') + '::' + tc.attrib.get('name', ''))
# '::' is the nameless junit record pytest emitted for the test that was running when it hit its INTERNALERROR on the pinned tree
missing = [t for t in base['stable_pass'] if t not in passed and t != '::']
print(f'pinned baseline: {len(base["stable_pass"]) - len(missing)}/{len(base["stable_pass"])} stable tests pass; pytest tail: {p.stdout.strip().splitlines()[-1] if p.stdout.strip() else ""}')
for m in missing: print('  MISSING', m)
code = ("import sys, os, json; sys.path.insert(0, %r); sys.path.insert(0, %r); import fixtures; "
        "fixtures.__dict__['glob'].glob; "
        "r = fixtures.run_all(verbose=False); print(json.dumps({k: v for k, v in r.items()}))") % (os.path.dirname(os.path.abspath(__file__)), repo)
bad = {}
import glob
names = sorted(os.path.relpath(f, os.path.join(repo, 'tests/yaml_files')) for f in glob.glob(os.path.join(repo, 'tests/yaml_files/**/*_test.yaml'), recursive=True))
res = {}
for n in names:
    q = subprocess.run(['/venv/bin/python', os.path.join(os.path.dirname(os.path.abspath(__file__)), 'fixtures.py'), '--one', repo, n], env=env, capture_output=True, text=True, timeout=120)
    if q.returncode == 0 and q.stdout.strip().endswith('OK'):
        res[n] = 'ok'
    elif q.returncode < 0:
        res[n] = f'CRASH signal {-q.returncode}'
    else:
        res[n] = 'FAIL ' + (q.stdout.strip().splitlines()[-1] if q.stdout.strip() else q.stderr.strip()[-200:])
badn = {k: v for k, v in res.items() if v != 'ok'}
print(f'fixtures: {len(res)} run, {len(badn)} failing')
for k, v in badn.items(): print('  ', k, '::', v[:200])
bl = os.path.join(os.path.dirname(os.path.abspath(__file__)), 'fixtures_baseline.json')
if os.path.exists(bl):
    old = json.load(open(bl))
    regress = [k for k in badn if old.get(k) == 'ok']
    fixed = [k for k, v in old.items() if v != 'ok' and res.get(k) == 'ok']
    print(f'vs pinned tree: {len(regress)} fixture(s) regressed, {len(fixed)} newly passing')
    for k in regress: print('  REGRESSED', k)
else:
    json.dump(res, open(bl, 'w'), indent=1, sort_keys=True)
    print('baseline of fixture results written')
    regress = []
sys.exit(1 if missing or regress else 0)
