#!/venv/bin/python
"""keep a confirmed seeded change under /verif/seeded/<name>/ : patch.diff, demo.py, meta.json (with what was run and what the checks said)"""
import os, sys, json, shutil, subprocess
src = os.path.abspath(sys.argv[1]); name = sys.argv[2]; note = sys.argv[3] if len(sys.argv) > 3 else ''
extra = sys.argv[4] if len(sys.argv) > 4 else None
if extra is None and os.path.exists(os.path.join(src, 'meta.json')):
    extra = json.load(open(os.path.join(src, 'meta.json'))).get('also_run')      # checks of other properties that are expected to catch the change
dst = os.path.join('/verif/seeded', name)
os.makedirs(dst, exist_ok=True)
meta = json.load(open(os.path.join(src, 'meta.json')))
if meta.get('obsolete'):
    print(name, 'obsolete (no longer a breaking change on the current tree, see meta.json)')
    sys.exit(0)
prop = meta['property']
cmd = ['/verif/tools/seedtest.py', src, '--seeds', '0,1,2', '--checks', prop + ((',' + extra) if extra else '')]
r = json.loads(subprocess.run(cmd, capture_output=True, text=True).stdout[subprocess.run(cmd[:1] + ['--help'], capture_output=True).returncode * 0:].split('\n', 0)[0] if False else subprocess.run(cmd, capture_output=True, text=True).stdout)
ok = r.get('demo_on_unmodified') == 0 and r.get('demo_on_modified') not in (0, None) and r.get('tests_ok')
meta.update({
    'breaks_property': prop,
    'needs_to_manifest': meta.get('needs'),
    'confirmed': {'demo_exit_on_unmodified_tree': r.get('demo_on_unmodified'), 'demo_exit_with_change': r.get('demo_on_modified'),
                  'pinned_tests_and_fixtures_pass_with_change': r.get('tests_ok'), 'regress_output': r.get('tests')},
    'what_was_run': ' '.join(cmd) + '  (scratch worktree of /repo HEAD, change applied with git apply, checks run with VERIF_REPO=<worktree>)',
    'checks': {k: {'exit': v['exit'], 'violation_lines': v['violations'], 'first': v['first'][:240]} for k, v in r.get('checks', {}).items()},
    'detected': any(v['exit'] == 1 for k, v in r.get('checks', {}).items() if k.startswith(prop) or (extra and k.split('@')[0] in extra.split(','))),
    'also_run': extra,
    'note': note,
})
for f in ('patch.diff', 'demo.py'):
    if os.path.abspath(src) != os.path.abspath(dst):
        shutil.copy(os.path.join(src, f), os.path.join(dst, f))
json.dump(meta, open(os.path.join(dst, 'meta.json'), 'w'), indent=1)
print(name, 'confirmed' if ok else 'NOT CONFIRMED', 'detected' if meta['detected'] else 'MISSED', {k: v['exit'] for k, v in meta['checks'].items()})
