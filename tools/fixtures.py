# run all repo yaml fixtures without unittest's traceback formatting
import sys, os, re, glob, importlib
REPO = '/repo'
def load(f):
    sec = {'yaml': [], 'error': [], 'expected': [], 'validate': []}; st = 'yaml'
    for line in open(f):
        if line.startswith('###ERROR'): st = 'error'; continue
        if line.startswith('###EXPECTED'): st = 'expected'; continue
        if line.startswith('###VALIDATE'): st = 'validate'; continue
        sec[st].append(line)
    return {k: ''.join(v) for k, v in sec.items()}
def run_all(filter_fn=lambda n: True, verbose=True):
    import yaml, unittest
    from awesomeyaml.config import Config
    from awesomeyaml.utils import import_name
    import awesomeyaml.errors as E
    res = {}
    os.chdir(REPO)
    for f in sorted(glob.glob(REPO + '/tests/yaml_files/**/*_test.yaml', recursive=True)):
        name = os.path.relpath(f, REPO + '/tests/yaml_files')
        if not filter_fn(name): continue
        s = load(f)
        try:
            result = Config.build(s['yaml'], filename=f)
            exc = None
        except BaseException as e:
            result = None; exc = e
        ok = True; why = ''
        if s['error'].strip():
            lines = s['error'].strip().split('\n'); et = lines[0].strip(); pat = '\n'.join(lines[1:]).strip()
            et = getattr(E, et, None) or import_name(et)
            x = exc; found = False
            while x is not None:
                if isinstance(x, et) and (not pat or re.search(pat, str(x))): found = True; break
                x = x.__context__
            ok = found; why = f'expected {et.__name__} /{pat}/ got {type(exc).__name__ if exc else None}: {str(exc)[:80] if exc else ""}'
        else:
            if exc is not None: ok = False; why = f'raised {type(exc).__name__}: {str(exc)[:120]}'
            else:
                if s['expected'].strip() and s['expected'].strip() != 'skip':
                    exp = yaml.load(s['expected'], Loader=yaml.Loader)
                    if result != exp: ok = False; why = f'got {dict(result)} expected {exp}'
                if ok and s['validate'].strip():
                    tc = unittest.TestCase()
                    try:
                        exec(s['validate'], {'self': tc, 'result': result, 'Path': __import__('pathlib').Path, 'os': os, '__file__': REPO + '/tests/yaml_files_test.py'})
                    except BaseException as e:
                        ok = False; why = f'validate: {type(e).__name__}: {str(e)[:100]}'
        res[name] = (ok, why)
    if verbose:
        bad = {k: v for k, v in res.items() if not v[0]}
        print(f'fixtures: {len(res)} run, {len(bad)} failing')
        for k, v in bad.items(): print('  FAIL', k, '::', v[1].replace('\n', ' | ')[:220])
    return res
if __name__ == '__main__':
    if sys.argv[1] == '--one':
        REPO = sys.argv[2]
        sys.path.insert(0, REPO)
        r = run_all(lambda n: n == sys.argv[3], verbose=False)
        ok, why = r[sys.argv[3]]
        print('OK' if ok else 'FAIL ' + why.replace('\n', ' | ')[:300])
        sys.exit(0 if ok else 1)
    sys.path.insert(0, REPO)
    run_all()
